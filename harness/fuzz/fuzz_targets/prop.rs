#![no_main]
//! one generic libFuzzer target for all twenty properties; RCV_FUZZ_PROP selects the property.
//! See harness/src/fuzzbridge.rs.
use libfuzzer_sys::fuzz_target;

fuzz_target!(init: rcv::fuzzbridge::init(), |data: &[u8]| {
    rcv::fuzzbridge::one(data);
});
