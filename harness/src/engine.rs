//! Shared engine: proptest-driven generated search with explicit seeds, known-finding
//! protocol, shrinking to replay files, evidence files, panic capture and watchdog.
//!
//! One `Prop` implementation per listed property.  `run_prop` is what `rcv <ID> --tier ..`
//! executes inside the worker process.

use proptest::strategy::{BoxedStrategy, Strategy};
use proptest::test_runner::{Config, RngSeed, TestCaseError, TestError, TestRunner};
use serde::de::DeserializeOwned;
use serde::Serialize;
use serde_json::{json, Value};
use std::cell::RefCell;
use std::collections::{BTreeMap, HashSet};
use std::fmt::Debug;
use std::hash::Hasher;
use std::io::Write;
use std::panic::{catch_unwind, AssertUnwindSafe};
use std::path::{Path, PathBuf};
use std::sync::atomic::{AtomicBool, AtomicU64, Ordering};
use std::sync::{Arc, Mutex};
use std::time::{Duration, Instant};

#[derive(Clone, Copy, Debug, PartialEq, Eq)]
pub enum Tier {
    Quick,
    Thorough,
}

impl Tier {
    pub fn name(&self) -> &'static str {
        match self {
            Tier::Quick => "quick",
            Tier::Thorough => "thorough",
        }
    }
    pub fn pick<T>(&self, quick: T, thorough: T) -> T {
        match self {
            Tier::Quick => quick,
            Tier::Thorough => thorough,
        }
    }
}

#[derive(Clone, Debug)]
pub struct Failure {
    /// `<property>/<call-site>/<failure-class>`; computed from the observation
    pub signature: String,
    pub detail: Value,
}

#[derive(Clone, Debug, Default)]
pub struct Outcome {
    pub labels: Vec<String>,
    pub nontrivial: bool,
    pub failure: Option<Failure>,
    /// failures whose signature is a listed known finding do not stop the check of the same
    /// case: a check may report several findings for one case, the first unlisted one wins.
    pub more_failures: Vec<Failure>,
}

impl Outcome {
    pub fn new() -> Outcome {
        Outcome::default()
    }
    pub fn label<S: Into<String>>(&mut self, s: S) {
        self.labels.push(s.into());
    }
    pub fn label_if<S: Into<String>>(&mut self, cond: bool, s: S) {
        if cond {
            self.labels.push(s.into());
        }
    }
    pub fn fail<S: Into<String>>(&mut self, signature: S, detail: Value) {
        let f = Failure {
            signature: signature.into(),
            detail,
        };
        if self.failure.is_none() {
            self.failure = Some(f);
        } else {
            self.more_failures.push(f);
        }
    }
    pub fn failed(&self) -> bool {
        self.failure.is_some()
    }
    pub fn all_failures(&self) -> Vec<&Failure> {
        self.failure.iter().chain(self.more_failures.iter()).collect()
    }
}

pub trait Prop: Sync + Send + 'static {
    type Case: Serialize + DeserializeOwned + Debug + Clone + Send + 'static;
    fn id(&self) -> &'static str;
    fn rule(&self) -> String;
    fn strategy(&self, tier: Tier) -> BoxedStrategy<Self::Case>;
    fn check(&self, case: &Self::Case) -> Outcome;
    /// total number of generated cases (split over the workers)
    fn cases(&self, tier: Tier) -> u32;
    fn assumptions(&self) -> Vec<String> {
        vec![]
    }
    /// enumerated (non-random) cases; run before the generated ones, split over workers
    fn enumerated(&self, _tier: Tier) -> Box<dyn Iterator<Item = Self::Case> + '_> {
        Box::new(std::iter::empty())
    }
    /// what finite sub-domain `enumerated` covers completely, if any
    fn exhaustive_note(&self, _tier: Tier) -> Option<String> {
        None
    }
    fn case_timeout(&self) -> Duration {
        Duration::from_secs(30)
    }
    /// true for the properties whose statement forbids unbounded running (C12, C13)
    fn unbounded_is_violation(&self) -> bool {
        false
    }
    fn workers(&self, _tier: Tier) -> usize {
        16
    }
    fn max_shrink_iters(&self) -> u32 {
        4000
    }
    /// wall budget for shrinking one failure
    fn shrink_budget(&self) -> Duration {
        Duration::from_secs(12)
    }
    /// extra sections for the evidence file computed after the run
    fn extra_evidence(&self, _tier: Tier) -> Option<Value> {
        None
    }
}

// ---------------------------------------------------------------------------------------
// paths

pub fn verif_root() -> PathBuf {
    if let Ok(p) = std::env::var("VERIF_ROOT") {
        return PathBuf::from(p);
    }
    // harness lives in <root>/harness
    let manifest = PathBuf::from(env!("CARGO_MANIFEST_DIR"));
    manifest.parent().map(|p| p.to_path_buf()).unwrap_or(manifest)
}

pub fn repo_root() -> PathBuf {
    if let Ok(p) = std::env::var("VERIF_REPO") {
        return PathBuf::from(p);
    }
    let manifest = PathBuf::from(env!("CARGO_MANIFEST_DIR"));
    // <R>/verif/harness -> <R>/repo
    manifest
        .parent()
        .and_then(|p| p.parent())
        .map(|p| p.join("repo"))
        .unwrap_or_else(|| PathBuf::from("/repo"))
}

/// scratch directory of this process for per-case files (created and removed within the run).
/// Memory-backed when the machine offers it (/dev/shm): creating and deleting a handful of small
/// files per case on the disk-backed /verif/work costs ~20 ms per case with 16 workers, on tmpfs
/// well under 1 ms. Nothing a later run needs is kept there. RCV_WORK_DIR overrides.
pub fn work_dir() -> PathBuf {
    static BASE: std::sync::OnceLock<PathBuf> = std::sync::OnceLock::new();
    let base = BASE.get_or_init(|| {
        if let Some(d) = std::env::var_os("RCV_WORK_DIR") {
            return PathBuf::from(d);
        }
        let shm = PathBuf::from("/dev/shm");
        let probe = shm.join(format!("rcv-probe-{}", std::process::id()));
        // only when it is roomy (>= 4 GiB free): C19 writes tens of MB per case and worker, and a
        // full tmpfs would surface as spurious I/O failures
        let roomy = {
            let mut st: libc::statvfs = unsafe { std::mem::zeroed() };
            let c = std::ffi::CString::new("/dev/shm").unwrap();
            let rc = unsafe { libc::statvfs(c.as_ptr(), &mut st) };
            rc == 0 && (st.f_bavail as u64).saturating_mul(st.f_frsize as u64) >= 4u64 << 30
        };
        if roomy && shm.is_dir() && std::fs::create_dir_all(&probe).is_ok() {
            let _ = std::fs::remove_dir_all(&probe);
            shm.join("rcv-work")
        } else {
            verif_root().join("work")
        }
    });
    let d = base.join(format!("{}", std::process::id()));
    let _ = std::fs::create_dir_all(&d);
    d
}

static CASE_DIR_COUNTER: AtomicU64 = AtomicU64::new(0);

/// a fresh directory for one file-based case; removed by the caller (`CaseDir` drop)
pub struct CaseDir(pub PathBuf);
impl CaseDir {
    pub fn new() -> CaseDir {
        let n = CASE_DIR_COUNTER.fetch_add(1, Ordering::SeqCst);
        let d = work_dir().join(format!("case{}", n));
        let _ = std::fs::create_dir_all(&d);
        CaseDir(d)
    }
    pub fn path(&self) -> &Path {
        &self.0
    }
    pub fn file(&self, name: &str) -> PathBuf {
        self.0.join(name)
    }
}
impl Default for CaseDir {
    fn default() -> Self {
        CaseDir::new()
    }
}
impl Drop for CaseDir {
    fn drop(&mut self) {
        let _ = std::fs::remove_dir_all(&self.0);
    }
}

// ---------------------------------------------------------------------------------------
// known findings

#[derive(Clone, Debug)]
pub struct KnownFinding {
    pub property: String,
    pub signature: String,
    pub replay: Option<String>,
    pub what: String,
}

#[derive(Clone, Debug, Default)]
pub struct KnownFindings {
    pub known: Vec<KnownFinding>,
    pub fixed_lines: Vec<String>,
}

impl KnownFindings {
    /// format, one entry per line:
    /// `known: property=<id> signature=<sig> replay=<path relative to /verif> :: <what fails>`
    /// `fixed: property=<id> <commit> <what failed>`
    pub fn load() -> KnownFindings {
        let path = verif_root().join("known_findings.txt");
        let mut out = KnownFindings::default();
        let text = match std::fs::read_to_string(&path) {
            Ok(t) => t,
            Err(_) => return out,
        };
        for line in text.lines() {
            let line = line.trim();
            if line.is_empty() || line.starts_with('#') {
                continue;
            }
            if let Some(rest) = line.strip_prefix("known:") {
                let (head, what) = match rest.split_once("::") {
                    Some((h, w)) => (h, w.trim().to_string()),
                    None => (rest, String::new()),
                };
                let mut property = String::new();
                let mut signature = String::new();
                let mut replay = None;
                for tok in head.split_whitespace() {
                    if let Some(v) = tok.strip_prefix("property=") {
                        property = v.to_string();
                    } else if let Some(v) = tok.strip_prefix("signature=") {
                        signature = v.to_string();
                    } else if let Some(v) = tok.strip_prefix("replay=") {
                        replay = Some(v.to_string());
                    }
                }
                if !property.is_empty() && !signature.is_empty() {
                    out.known.push(KnownFinding {
                        property,
                        signature,
                        replay,
                        what,
                    });
                }
            } else if line.starts_with("fixed:") {
                out.fixed_lines.push(line.to_string());
            }
        }
        out
    }
    pub fn is_known(&self, property: &str, signature: &str) -> bool {
        self.known
            .iter()
            .any(|k| k.property == property && k.signature == signature)
    }
    pub fn for_property(&self, property: &str) -> Vec<&KnownFinding> {
        self.known.iter().filter(|k| k.property == property).collect()
    }
}

// ---------------------------------------------------------------------------------------
// panic capture

thread_local! {
    static LAST_PANIC: RefCell<Option<(String, String)>> = const { RefCell::new(None) };
}

/// panics raised on other threads (rayon workers of the code under test) are re-raised on the
/// calling thread without their location: the hook also records them here, keyed by nothing
static LAST_PANIC_ANYWHERE: Mutex<Option<(String, String)>> = Mutex::new(None);

pub fn install_panic_hook() {
    std::panic::set_hook(Box::new(|info| {
        let loc = info
            .location()
            .map(|l| format!("{}:{}", normalise_path(l.file()), l.line()))
            .unwrap_or_else(|| "unknown".to_string());
        let msg = if let Some(s) = info.payload().downcast_ref::<&str>() {
            s.to_string()
        } else if let Some(s) = info.payload().downcast_ref::<String>() {
            s.clone()
        } else {
            "<non-string panic payload>".to_string()
        };
        if let Ok(mut g) = LAST_PANIC_ANYWHERE.lock() {
            *g = Some((loc.clone(), msg.clone()));
        }
        LAST_PANIC.with(|p| *p.borrow_mut() = Some((loc, msg)));
    }));
}

fn normalise_path(p: &str) -> String {
    // make signatures independent of where the repository copy lives
    if let Some(i) = p.find("/rust/routee-compass") {
        return p[i + 6..].to_string();
    }
    if let Some(i) = p.find("/registry/src/") {
        let rest = &p[i + 14..];
        if let Some(j) = rest.find('/') {
            return format!("dep:{}", &rest[j + 1..]);
        }
    }
    if let Some(i) = p.find("/harness/src/") {
        return format!("harness:{}", &p[i + 13..]);
    }
    p.to_string()
}

/// run `f`, turning a panic into `Err((location, message))`
pub fn guard<T, F: FnOnce() -> T>(f: F) -> Result<T, (String, String)> {
    LAST_PANIC.with(|p| *p.borrow_mut() = None);
    match catch_unwind(AssertUnwindSafe(f)) {
        Ok(v) => Ok(v),
        Err(_) => {
            let got = LAST_PANIC.with(|p| p.borrow_mut().take());
            let got = got.or_else(|| LAST_PANIC_ANYWHERE.lock().ok().and_then(|mut g| g.take()));
            Err(got.unwrap_or_else(|| ("unknown".to_string(), "panic".to_string())))
        }
    }
}

pub(crate) fn guarded_check<P: Prop>(prop: &P, case: &P::Case) -> Outcome {
    match guard(|| prop.check(case)) {
        Ok(o) => o,
        Err((loc, msg)) => {
            let mut o = Outcome::new();
            let site = if loc.starts_with("harness:") {
                "harness-panic"
            } else {
                "panic"
            };
            o.fail(
                format!("{}/{}@{}", prop.id(), site, loc),
                json!({"panic_location": loc, "panic_message": msg}),
            );
            o
        }
    }
}

// ---------------------------------------------------------------------------------------
// statistics

struct HashWriter(std::collections::hash_map::DefaultHasher);
impl Write for HashWriter {
    fn write(&mut self, buf: &[u8]) -> std::io::Result<usize> {
        self.0.write(buf);
        Ok(buf.len())
    }
    fn flush(&mut self) -> std::io::Result<()> {
        Ok(())
    }
}

pub fn case_hash<C: Serialize>(case: &C) -> u64 {
    let mut w = HashWriter(std::collections::hash_map::DefaultHasher::new());
    let _ = serde_json::to_writer(&mut w, case);
    w.0.finish()
}

#[derive(Default)]
pub struct Stats {
    pub evaluations: u64,
    pub enumerated: u64,
    pub nontrivial: HashSet<u64>,
    pub classes: BTreeMap<String, u64>,
    pub excluded: BTreeMap<String, u64>,
    pub samples: Vec<Value>,
    pub violations: Vec<(String, Value, Value)>, // signature, case, detail
}

impl Stats {
    pub(crate) fn record<C: Serialize>(&mut self, case: &C, out: &Outcome, enumerated: bool) {
        self.evaluations += 1;
        if enumerated {
            self.enumerated += 1;
        }
        for l in &out.labels {
            *self.classes.entry(l.clone()).or_insert(0) += 1;
        }
        if out.nontrivial {
            let h = case_hash(case);
            if self.nontrivial.insert(h) {
                let n = self.nontrivial.len();
                if n == 1 || n == 7 || n == 50 || n == 400 {
                    if let Ok(v) = serde_json::to_value(case) {
                        self.samples.push(v);
                    }
                }
            }
        }
    }
    fn merge(&mut self, other: Stats) {
        self.evaluations += other.evaluations;
        self.enumerated += other.enumerated;
        self.nontrivial.extend(other.nontrivial);
        for (k, v) in other.classes {
            *self.classes.entry(k).or_insert(0) += v;
        }
        for (k, v) in other.excluded {
            *self.excluded.entry(k).or_insert(0) += v;
        }
        self.samples.extend(other.samples);
        self.violations.extend(other.violations);
    }
}

// ---------------------------------------------------------------------------------------
// watchdog

struct Slot<C> {
    current: Mutex<Option<(Instant, C)>>,
}

fn current_file(id: &str, worker: usize) -> PathBuf {
    verif_root()
        .join("work")
        .join(format!("current-{}-{}.json", id, worker))
}

pub fn suspect_file(id: &str) -> PathBuf {
    verif_root().join("work").join(format!("suspect-{}.json", id))
}

// ---------------------------------------------------------------------------------------
// running

pub struct RunReport {
    pub exit_code: i32,
}

fn worker_seed(seed: u64, worker: usize) -> u64 {
    // splitmix-style derivation; VERIF_SEED=0 is a valid fixed seed
    let mut z = seed
        .wrapping_mul(0x9E37_79B9_7F4A_7C15)
        .wrapping_add(0xD1B5_4A32_D192_ED03u64.wrapping_mul(worker as u64 + 1));
    z = (z ^ (z >> 30)).wrapping_mul(0xBF58_476D_1CE4_E5B9);
    z = (z ^ (z >> 27)).wrapping_mul(0x94D0_49BB_1331_11EB);
    z ^ (z >> 31)
}

fn seed_bytes(seed: u64) -> u64 {
    seed
}

/// evaluates one case against the known-finding list.
/// returns (outcome, first unlisted failure)
pub(crate) fn evaluate<P: Prop>(
    prop: &P,
    case: &P::Case,
    known: &KnownFindings,
    excluded: &mut BTreeMap<String, u64>,
    count_excluded: bool,
) -> (Outcome, Option<Failure>) {
    let out = guarded_check(prop, case);
    let mut unlisted: Option<Failure> = None;
    for f in out.all_failures() {
        if known.is_known(prop.id(), &f.signature) {
            if count_excluded {
                *excluded.entry(f.signature.clone()).or_insert(0) += 1;
            }
        } else if unlisted.is_none() {
            unlisted = Some(f.clone());
        }
    }
    (out, unlisted)
}

fn run_worker<P: Prop>(
    prop: &P,
    tier: Tier,
    seed: u64,
    worker: usize,
    n_workers: usize,
    known: &KnownFindings,
    slot: Arc<Slot<P::Case>>,
    persist_current: bool,
) -> Stats {
    let mut stats = Stats::default();
    let id = prop.id();

    let set_current = |case: &P::Case| {
        if let Ok(mut g) = slot.current.lock() {
            *g = Some((Instant::now(), case.clone()));
        }
        if persist_current {
            if let Ok(s) = serde_json::to_string(case) {
                let _ = std::fs::write(current_file(id, worker), s);
            }
        }
    };
    let clear_current = || {
        if let Ok(mut g) = slot.current.lock() {
            *g = None;
        }
    };

    // 1. enumerated cases (no shrinking: they are already minimal members of a finite domain)
    for (i, case) in prop.enumerated(tier).enumerate() {
        if i % n_workers != worker {
            continue;
        }
        set_current(&case);
        let (out, unlisted) = evaluate(prop, &case, known, &mut stats.excluded, true);
        clear_current();
        stats.record(&case, &out, true);
        if let Some(f) = unlisted {
            if !stats.violations.iter().any(|(s, _, _)| s == &f.signature) {
                stats.violations.push((
                    f.signature.clone(),
                    serde_json::to_value(&case).unwrap_or(Value::Null),
                    f.detail.clone(),
                ));
            }
            if stats.violations.len() >= 3 {
                break;
            }
        }
    }

    // 2. generated cases
    let total = prop.cases(tier) as usize;
    let mine = total / n_workers + if worker < total % n_workers { 1 } else { 0 };
    if mine == 0 {
        return stats;
    }
    let config = Config {
        cases: mine as u32,
        rng_seed: RngSeed::Fixed(seed_bytes(worker_seed(seed, worker))),
        failure_persistence: None,
        max_shrink_iters: prop.max_shrink_iters(),
        max_global_rejects: 1_000_000,
        max_local_rejects: 1_000_000,
        verbose: 0,
        ..Config::default()
    };
    let mut runner = TestRunner::new(config);
    let strategy = prop.strategy(tier);
    let first_sig: RefCell<Option<String>> = RefCell::new(None);
    let shrink_started: RefCell<Option<Instant>> = RefCell::new(None);
    let shrink_budget = prop.shrink_budget();
    let stats_cell = RefCell::new(&mut stats);
    let result = runner.run(&strategy, |case| {
        let searching = first_sig.borrow().is_none();
        if !searching {
            // bounded shrinking: past the budget every candidate "passes", so the runner
            // settles on the smallest failing case found so far
            let started = *shrink_started.borrow();
            match started {
                None => *shrink_started.borrow_mut() = Some(Instant::now()),
                Some(t0) if t0.elapsed() > shrink_budget => return Ok(()),
                _ => {}
            }
        }
        set_current(&case);
        let mut scratch = BTreeMap::new();
        let (out, unlisted) = {
            let mut st = stats_cell.borrow_mut();
            if searching {
                evaluate(prop, &case, known, &mut st.excluded, true)
            } else {
                evaluate(prop, &case, known, &mut scratch, false)
            }
        };
        clear_current();
        if searching {
            stats_cell.borrow_mut().record(&case, &out, false);
            match unlisted {
                None => Ok(()),
                Some(f) => {
                    *first_sig.borrow_mut() = Some(f.signature.clone());
                    Err(TestCaseError::fail(f.signature))
                }
            }
        } else {
            // shrinking: only the same signature counts as "still failing"
            let want = first_sig.borrow().clone().unwrap_or_default();
            let same = out
                .all_failures()
                .iter()
                .any(|f| f.signature == want && !known.is_known(prop.id(), &f.signature));
            if same {
                Err(TestCaseError::fail(want))
            } else {
                Ok(())
            }
        }
    });
    drop(stats_cell);
    match result {
        Ok(()) => {}
        Err(TestError::Fail(_, minimal)) => {
            let out = guarded_check(prop, &minimal);
            let want = first_sig.borrow().clone().unwrap_or_default();
            let detail = out
                .all_failures()
                .iter()
                .find(|f| f.signature == want)
                .map(|f| f.detail.clone())
                .unwrap_or(Value::Null);
            stats.violations.push((
                want,
                serde_json::to_value(&minimal).unwrap_or(Value::Null),
                detail,
            ));
        }
        Err(TestError::Abort(reason)) => {
            println!("INCONCLUSIVE property={} generator aborted: {}", id, reason);
            stats.violations.push((
                format!("{}/harness/generator-abort", id),
                Value::Null,
                json!({"reason": reason.to_string()}),
            ));
        }
    }
    if persist_current {
        let _ = std::fs::remove_file(current_file(id, worker));
    }
    stats
}

fn sanitise(sig: &str) -> String {
    sig.chars()
        .map(|c| if c.is_ascii_alphanumeric() || c == '-' || c == '_' { c } else { '-' })
        .collect()
}

pub fn write_replay(id: &str, signature: &str, seed: u64, case: &Value, detail: &Value) -> PathBuf {
    let dir = verif_root().join("replays").join("found");
    let _ = std::fs::create_dir_all(&dir);
    let h = case_hash(case);
    let path = dir.join(format!("{}-{:08x}.json", sanitise(signature), h as u32));
    let body = json!({
        "property": id,
        "signature": signature,
        "seed": seed,
        "case": case,
        "detail": detail,
    });
    let _ = std::fs::write(
        &path,
        serde_json::to_string_pretty(&body).unwrap_or_default(),
    );
    path
}

pub fn load_replay_case<C: DeserializeOwned>(path: &Path) -> Result<(C, Option<String>), String> {
    let text = std::fs::read_to_string(path).map_err(|e| format!("{}: {}", path.display(), e))?;
    let v: Value = serde_json::from_str(&text).map_err(|e| format!("{}: {}", path.display(), e))?;
    let sig = v
        .get("signature")
        .and_then(|s| s.as_str())
        .map(|s| s.to_string());
    let case_v = match v.get("case") {
        Some(c) => c.clone(),
        None => v,
    };
    let case: C = serde_json::from_value(case_v)
        .map_err(|e| format!("{}: cannot decode case: {}", path.display(), e))?;
    Ok((case, sig))
}

/// replay tier: regress files must pass; known-finding example files must still fail with
/// their listed signature (then the KNOWN-FINDING line is printed).
fn replay_tier<P: Prop>(prop: &P, known: &KnownFindings, stats: &mut Stats) -> (u64, Vec<String>) {
    let id = prop.id();
    let mut n = 0u64;
    let mut notes = vec![];
    let dir = verif_root().join("replays").join("regress").join(id);
    let mut files: Vec<PathBuf> = std::fs::read_dir(&dir)
        .map(|rd| rd.filter_map(|e| e.ok().map(|e| e.path())).collect())
        .unwrap_or_default();
    files.sort();
    for f in files {
        if f.extension().map(|e| e != "json").unwrap_or(true) {
            continue;
        }
        match load_replay_case::<P::Case>(&f) {
            Err(e) => {
                notes.push(format!("unreadable regress file {}", e));
            }
            Ok((case, _)) => {
                n += 1;
                let mut scratch = BTreeMap::new();
                let (_out, unlisted) = evaluate(prop, &case, known, &mut scratch, false);
                if let Some(fl) = unlisted {
                    println!(
                        "VIOLATION property={} replay={} signature={}",
                        id,
                        f.display(),
                        fl.signature
                    );
                    stats.violations.push((
                        fl.signature.clone(),
                        serde_json::to_value(&case).unwrap_or(Value::Null),
                        fl.detail.clone(),
                    ));
                }
            }
        }
    }
    for k in known.for_property(id) {
        let mut reproduced = None;
        if let Some(rp) = &k.replay {
            let p = verif_root().join(rp);
            match load_replay_case::<P::Case>(&p) {
                Ok((case, _)) => {
                    n += 1;
                    let out = guarded_check(prop, &case);
                    reproduced = Some(out.all_failures().iter().any(|f| f.signature == k.signature));
                    // any other unlisted failure on the example is still a violation
                    for f in out.all_failures() {
                        if !known.is_known(id, &f.signature) {
                            println!(
                                "VIOLATION property={} replay={} signature={}",
                                id,
                                p.display(),
                                f.signature
                            );
                            stats.violations.push((
                                f.signature.clone(),
                                serde_json::to_value(&case).unwrap_or(Value::Null),
                                f.detail.clone(),
                            ));
                        }
                    }
                }
                Err(e) => notes.push(format!("unreadable known-finding example {}", e)),
            }
        }
        match reproduced {
            Some(false) => {
                println!(
                    "NOTE property={} listed finding {} did not reproduce on its example (fixed upstream?)",
                    id, k.signature
                );
            }
            _ => {
                println!("KNOWN-FINDING: property={} {} {}", id, k.signature, k.what);
            }
        }
    }
    (n, notes)
}

pub fn run_prop<P: Prop>(prop: P, tier: Tier, seed: u64) -> RunReport {
    let start = Instant::now();
    let id = prop.id();
    let known = KnownFindings::load();
    let prop = Arc::new(prop);
    let mut stats = Stats::default();

    let (replayed, notes) = replay_tier(&*prop, &known, &mut stats);
    for n in &notes {
        println!("NOTE property={} {}", id, n);
    }

    let n_workers = prop.workers(tier).max(1);
    let persist_current = prop.unbounded_is_violation();
    let slots: Vec<Arc<Slot<P::Case>>> = (0..n_workers)
        .map(|_| {
            Arc::new(Slot {
                current: Mutex::new(None),
            })
        })
        .collect();

    // watchdog
    let done = Arc::new(AtomicBool::new(false));
    let wd = {
        let slots = slots.clone();
        let done = done.clone();
        let timeout = prop.case_timeout();
        let id = id.to_string();
        std::thread::spawn(move || loop {
            if done.load(Ordering::SeqCst) {
                return;
            }
            std::thread::sleep(Duration::from_millis(200));
            for s in slots.iter() {
                let hit = {
                    let g = match s.current.lock() {
                        Ok(g) => g,
                        Err(_) => continue,
                    };
                    match &*g {
                        Some((t0, case)) if t0.elapsed() > timeout => {
                            Some(serde_json::to_value(case).unwrap_or(Value::Null))
                        }
                        _ => None,
                    }
                };
                if let Some(case) = hit {
                    let _ = std::fs::write(
                        suspect_file(&id),
                        serde_json::to_string_pretty(&json!({
                            "property": id,
                            "signature": format!("{}/unbounded", id),
                            "case": case,
                            "detail": {"exceeded_s": timeout.as_secs_f64()}
                        }))
                        .unwrap_or_default(),
                    );
                    println!(
                        "SUSPECT-UNBOUNDED property={} case exceeded {:.0}s",
                        id,
                        timeout.as_secs_f64()
                    );
                    let _ = std::io::stdout().flush();
                    std::process::exit(3);
                }
            }
        })
    };

    let mut handles = vec![];
    for w in 0..n_workers {
        let prop = prop.clone();
        let known = known.clone();
        let slot = slots[w].clone();
        handles.push(
            std::thread::Builder::new()
                .name(format!("{}-w{}", id, w))
                .stack_size(256 << 20)
                .spawn(move || {
                    run_worker(&*prop, tier, seed, w, n_workers, &known, slot, persist_current)
                })
                .expect("spawn worker"),
        );
    }
    for h in handles {
        match h.join() {
            Ok(s) => stats.merge(s),
            Err(_) => {
                println!("INCONCLUSIVE property={} worker thread died", id);
                done.store(true, Ordering::SeqCst);
                return RunReport { exit_code: 2 };
            }
        }
    }
    done.store(true, Ordering::SeqCst);
    let _ = wd.join();

    // report violations (one per signature)
    let mut seen = HashSet::new();
    let mut n_viol = 0;
    for (sig, case, detail) in &stats.violations {
        if !seen.insert(sig.clone()) {
            continue;
        }
        n_viol += 1;
        let path = write_replay(id, sig, seed, case, detail);
        println!(
            "VIOLATION property={} replay={} signature={}",
            id,
            path.display(),
            sig
        );
        let d = serde_json::to_string(detail).unwrap_or_default();
        let d = if d.len() > 1500 { format!("{}…", &d[..1500]) } else { d };
        println!("  detail: {}", d);
    }

    // evidence
    let wall = start.elapsed().as_secs_f64();
    let mut coverage = json!({
        "evaluations": stats.evaluations,
        "distinct_nontrivial": stats.nontrivial.len(),
        "rule": prop.rule(),
        "samples": stats.samples.iter().take(6).collect::<Vec<_>>(),
        "classes": stats.classes,
        "excluded": stats.excluded,
        "enumerated_cases": stats.enumerated,
        "generated_cases": stats.evaluations - stats.enumerated,
        "replayed_files": replayed,
        "workers": n_workers,
    });
    if let Some(note) = prop.exhaustive_note(tier) {
        coverage["exhaustive"] = json!(true);
        coverage["exhausted_subdomain"] = json!(note);
    } else {
        coverage["exhaustive"] = json!(false);
    }
    if let Some(extra) = prop.extra_evidence(tier) {
        coverage["extra"] = extra;
    }
    let evidence = json!({
        "property_id": id,
        "tier": tier.name(),
        "seed": seed,
        "level": "exploration",
        "coverage": coverage,
        "assumptions": prop.assumptions(),
        "wall_s": wall,
        "violations": n_viol,
    });
    let edir = verif_root().join("evidence");
    let _ = std::fs::create_dir_all(&edir);
    let _ = std::fs::write(
        edir.join(format!("{}.json", id)),
        serde_json::to_string_pretty(&evidence).unwrap_or_default(),
    );
    println!(
        "{} property={} tier={} seed={} evaluations={} distinct_nontrivial={} excluded={} wall_s={:.1}",
        if n_viol == 0 { "OK" } else { "FAILED" },
        id,
        tier.name(),
        seed,
        stats.evaluations,
        stats.nontrivial.len(),
        stats.excluded.values().sum::<u64>(),
        wall
    );
    RunReport {
        exit_code: if n_viol == 0 { 0 } else { 1 },
    }
}

/// `rcv <ID> --replay <file>`: plain check of one saved case, no proptest involved
pub fn replay_prop<P: Prop>(prop: P, path: &Path, strict: bool) -> RunReport {
    let id = prop.id();
    let known = KnownFindings::load();
    let (case, _sig) = match load_replay_case::<P::Case>(path) {
        Ok(c) => c,
        Err(e) => {
            println!("INCONCLUSIVE cannot load replay: {}", e);
            return RunReport { exit_code: 2 };
        }
    };
    // watchdog for the single case
    let timeout = prop.case_timeout() * 2;
    let done = Arc::new(AtomicBool::new(false));
    {
        let done = done.clone();
        let id = id.to_string();
        std::thread::spawn(move || {
            let t0 = Instant::now();
            while !done.load(Ordering::SeqCst) {
                std::thread::sleep(Duration::from_millis(100));
                if t0.elapsed() > timeout {
                    println!(
                        "SUSPECT-UNBOUNDED property={} replayed case exceeded {:.0}s",
                        id,
                        timeout.as_secs_f64()
                    );
                    let _ = std::io::stdout().flush();
                    std::process::exit(3);
                }
            }
        });
    }
    let out = guarded_check(&prop, &case);
    done.store(true, Ordering::SeqCst);
    let mut code = 0;
    for f in out.all_failures() {
        if !strict && known.is_known(id, &f.signature) {
            println!("KNOWN-FINDING: property={} {} (replay)", id, f.signature);
        } else {
            println!(
                "VIOLATION property={} replay={} signature={}",
                id,
                path.display(),
                f.signature
            );
            println!(
                "  detail: {}",
                serde_json::to_string(&f.detail).unwrap_or_default()
            );
            code = 1;
        }
    }
    if code == 0 {
        println!("PASS property={} replay={} labels={:?}", id, path.display(), out.labels);
    }
    RunReport { exit_code: code }
}

// ---------------------------------------------------------------------------------------
// helpers used by many properties

/// relative closeness with an absolute floor
pub fn close(a: f64, b: f64, rel: f64, abs: f64) -> bool {
    if a == b {
        return true;
    }
    if !a.is_finite() || !b.is_finite() {
        return false;
    }
    let d = (a - b).abs();
    d <= abs || d <= rel * a.abs().max(b.abs())
}

/// monotone index mapping for proptest-generated raw u16 values (shrinks towards index 0)
pub fn pick_idx(raw: u16, len: usize) -> usize {
    if len == 0 {
        return 0;
    }
    ((raw as usize) * len) >> 16
}

pub fn boxed<S: Strategy + 'static>(s: S) -> BoxedStrategy<S::Value> {
    s.boxed()
}
