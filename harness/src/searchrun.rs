//! Running one search (any algorithm / orientation / direction) on a `SiSpec`, and the
//! structural validity predicates shared by C01, C04, C05, C13.

use crate::refmodel::RefGraph;
use crate::simodel::*;
use routee_compass_core::algorithm::search::direction::Direction;
use routee_compass_core::algorithm::search::edge_traversal::EdgeTraversal;
use routee_compass_core::algorithm::search::search_algorithm_result::SearchAlgorithmResult;
use routee_compass_core::algorithm::search::search_error::SearchError;
use routee_compass_core::algorithm::search::search_instance::SearchInstance;
use routee_compass_core::model::frontier::frontier_model::FrontierModel;
use routee_compass_core::model::frontier::frontier_model_error::FrontierModelError;
use routee_compass_core::model::network::{Edge, EdgeId, VertexId};
use routee_compass_core::model::state::state_model::StateModel;
use routee_compass_core::model::traversal::state::state_variable::StateVar;
use serde::{Deserialize, Serialize};
use serde_json::json;
use std::collections::{HashMap, HashSet};
use std::sync::atomic::{AtomicI64, Ordering};
use std::sync::Arc;

#[derive(Clone, Debug, Serialize, Deserialize, PartialEq)]
pub struct SearchCase {
    pub spec: SiSpec,
    pub alg: AlgSpec,
    pub edge_oriented: bool,
    pub reverse: bool,
    /// vertex ids, or edge ids when `edge_oriented`
    pub o: usize,
    pub d: Option<usize>,
    pub query_wf: Option<f64>,
    pub query_k: Option<usize>,
}

impl SearchCase {
    /// does any (sub-)search of this case run with a non-zero A* weight factor?  Only then can
    /// a vertex be re-labelled after it was expanded (with h = 0 and positive edge costs a
    /// label is final when its vertex is expanded)
    pub fn heuristic_in_use(&self) -> bool {
        heuristic_in_use(&self.alg, self.query_wf)
    }
    pub fn query(&self) -> serde_json::Value {
        let mut q = serde_json::Map::new();
        if let Some(w) = self.query_wf {
            q.insert("weight_factor".into(), json!(w));
        }
        if let Some(k) = self.query_k {
            q.insert("k".into(), json!(k));
        }
        serde_json::Value::Object(q)
    }
    pub fn direction(&self) -> Direction {
        if self.reverse {
            Direction::Reverse
        } else {
            Direction::Forward
        }
    }
    pub fn effective_k(&self) -> usize {
        match &self.alg {
            AlgSpec::SingleVia { k, .. } | AlgSpec::Yens { k, .. } => self.query_k.unwrap_or(*k),
            _ => 1,
        }
    }
    /// vertex-level endpoints of the vertex-oriented (sub)search: (source, target)
    pub fn vertex_endpoints(&self) -> (usize, Option<usize>) {
        if self.edge_oriented {
            let s = self.spec.net.edges[self.o].1;
            let t = self.d.map(|d| self.spec.net.edges[d].0);
            (s, t)
        } else {
            (self.o, self.d)
        }
    }
}

/// Err after a fixed number of frontier calls: bounds algorithms whose outer loop can spin
/// (Yen) without a wall clock.  The error text is recognised by `run_search`.
pub struct FuseFrontier {
    pub inner: Arc<dyn FrontierModel>,
    pub remaining: AtomicI64,
}

pub const FUSE_TEXT: &str = "rcv-harness-fuse-blown";

impl FrontierModel for FuseFrontier {
    fn valid_frontier(
        &self,
        edge: &Edge,
        state: &[StateVar],
        previous_edge: Option<&Edge>,
        state_model: &StateModel,
    ) -> Result<bool, FrontierModelError> {
        if self.remaining.fetch_sub(1, Ordering::SeqCst) <= 0 {
            return Err(FrontierModelError::FrontierModelError(FUSE_TEXT.to_string()));
        }
        self.inner
            .valid_frontier(edge, state, previous_edge, state_model)
    }
}

/// plain-data copy of a search result (what crosses the process boundary for isolated runs)
#[derive(Clone, Debug, Serialize, Deserialize)]
pub struct PlainBranch {
    pub vertex: usize,
    pub parent: usize,
    pub et: EdgeTraversal,
}

#[derive(Clone, Debug, Serialize, Deserialize)]
pub struct PlainResult {
    pub routes: Vec<Vec<EdgeTraversal>>,
    pub trees: Vec<Vec<PlainBranch>>,
    pub iterations: u64,
}

impl PlainResult {
    pub fn from_impl(r: &SearchAlgorithmResult) -> PlainResult {
        PlainResult {
            routes: r.routes.clone(),
            trees: r
                .trees
                .iter()
                .map(|t| {
                    let mut v: Vec<PlainBranch> = t
                        .iter()
                        .map(|(k, b)| PlainBranch {
                            vertex: k.0,
                            parent: b.terminal_vertex.0,
                            et: b.edge_traversal.clone(),
                        })
                        .collect();
                    v.sort_by_key(|b| b.vertex);
                    v
                })
                .collect(),
            iterations: r.iterations,
        }
    }
    pub fn tree_map(&self, i: usize) -> HashMap<usize, &PlainBranch> {
        self.trees[i].iter().map(|b| (b.vertex, b)).collect()
    }
}

#[derive(Clone, Debug, Serialize, Deserialize, PartialEq)]
pub enum ErrKind {
    NoPath,
    Terminated(String),
    Internal(String),
    Build(String),
    Other(String),
}

impl ErrKind {
    pub fn from_impl(e: &SearchError) -> ErrKind {
        use routee_compass_core::model::termination::termination_model_error::TerminationModelError as T;
        match e {
            SearchError::NoPathExistsBetweenVertices(_, _) | SearchError::NoPathExistsBetweenEdges(_, _) => ErrKind::NoPath,
            SearchError::TerminationModelFailure { source: T::QueryTerminated(s) } => ErrKind::Terminated(s.clone()),
            SearchError::QueryTerminated(s) => ErrKind::Terminated(s.clone()),
            SearchError::InternalError(s) => ErrKind::Internal(s.clone()),
            SearchError::BuildError(s) => ErrKind::Build(s.clone()),
            other => ErrKind::Other(other.to_string()),
        }
    }
    pub fn label(&self) -> &'static str {
        match self {
            ErrKind::NoPath => "error-no-path",
            ErrKind::Terminated(_) => "error-terminated",
            ErrKind::Internal(_) => "error-internal",
            ErrKind::Build(_) => "error-build",
            ErrKind::Other(_) => "error-other",
        }
    }
}

#[derive(Clone, Debug, Serialize, Deserialize)]
pub enum RunOutcome {
    Done(Result<PlainResult, ErrKind>),
    /// Yen ran past its wall budget in the isolated child (listed finding under C13)
    YensUnbounded,
    /// Yen panicked in the isolated child: (location, message)
    YensPanic(String, String),
    /// isolation failed (fork / pipe); never a verdict
    IsolationFailed(String),
    /// Yen with k >= 2 whose first (shortest) path has 1 or 2 edges: the implementation
    /// underflows (1 edge) or spins forever (2 edges) - listed finding, not executed
    YensShortPathNotExecuted(usize),
}

pub fn run_raw(case: &SearchCase, si: &SearchInstance) -> Result<SearchAlgorithmResult, SearchError> {
    let alg = case.alg.to_impl();
    let q = case.query();
    if case.edge_oriented {
        alg.run_edge_oriented(
            EdgeId(case.o),
            case.d.map(EdgeId),
            &q,
            &case.direction(),
            si,
        )
    } else {
        alg.run_vertex_oriented(
            VertexId(case.o),
            case.d.map(VertexId),
            &q,
            &case.direction(),
            si,
        )
    }
}

pub fn run_plain(case: &SearchCase, si: &SearchInstance) -> Result<PlainResult, ErrKind> {
    match run_raw(case, si) {
        Ok(r) => Ok(PlainResult::from_impl(&r)),
        Err(e) => Err(ErrKind::from_impl(&e)),
    }
}

pub fn heuristic_in_use(alg: &AlgSpec, query_wf: Option<f64>) -> bool {
    match alg {
        AlgSpec::Dijkstra => query_wf.unwrap_or(0.0) != 0.0,
        AlgSpec::AStar { wf } => query_wf.or(*wf).unwrap_or(1.0) != 0.0,
        AlgSpec::SingleVia { underlying, .. } | AlgSpec::Yens { underlying, .. } => heuristic_in_use(underlying, query_wf),
    }
}

// Yen's outer loop can spin forever without calling any model, so no in-process fuse can stop
// it.  Yen cases are therefore executed by a persistent helper process (`rcv --yens-server`,
// one per worker thread) that is killed and respawned when a case exceeds its wall budget.

pub const YENS_BUDGET_MS: u64 = 400;

struct YensServer {
    child: std::process::Child,
    stdin: std::process::ChildStdin,
    stdout: std::process::ChildStdout,
}

impl Drop for YensServer {
    fn drop(&mut self) {
        let _ = self.child.kill();
        let _ = self.child.wait();
    }
}

thread_local! {
    static YENS_SERVER: std::cell::RefCell<Option<YensServer>> = const { std::cell::RefCell::new(None) };
}

fn spawn_server() -> Result<YensServer, String> {
    use std::process::{Command, Stdio};
    // the fuzz target is not `rcv`: it names the helper binary through RCV_HELPER_EXE
    let exe = match std::env::var_os("RCV_HELPER_EXE") {
        Some(p) => std::path::PathBuf::from(p),
        None => std::env::current_exe().map_err(|e| e.to_string())?,
    };
    let mut child = Command::new(exe)
        .arg("--yens-server")
        .stdin(Stdio::piped())
        .stdout(Stdio::piped())
        .stderr(Stdio::null())
        .spawn()
        .map_err(|e| e.to_string())?;
    let stdin = child.stdin.take().ok_or("no stdin")?;
    let stdout = child.stdout.take().ok_or("no stdout")?;
    Ok(YensServer {
        child,
        stdin,
        stdout,
    })
}

fn request(server: &mut YensServer, line: &str, budget: std::time::Duration) -> Result<String, String> {
    use std::io::{Read, Write};
    use std::os::unix::io::AsRawFd;
    server
        .stdin
        .write_all(line.as_bytes())
        .and_then(|_| server.stdin.write_all(b"\n"))
        .and_then(|_| server.stdin.flush())
        .map_err(|e| format!("write: {}", e))?;
    let fd = server.stdout.as_raw_fd();
    let deadline = std::time::Instant::now() + budget;
    let mut buf: Vec<u8> = vec![];
    loop {
        let left = deadline.saturating_duration_since(std::time::Instant::now());
        if left.is_zero() {
            return Err("timeout".into());
        }
        let mut pfd = libc::pollfd {
            fd,
            events: libc::POLLIN,
            revents: 0,
        };
        let r = unsafe { libc::poll(&mut pfd, 1, (left.as_millis() as i32).max(1)) };
        if r <= 0 {
            continue;
        }
        let mut chunk = [0u8; 65536];
        match server.stdout.read(&mut chunk) {
            Ok(0) => return Err("server closed".into()),
            Ok(n) => {
                buf.extend_from_slice(&chunk[..n]);
                if buf.last() == Some(&b'\n') {
                    buf.pop();
                    return String::from_utf8(buf).map_err(|e| e.to_string());
                }
            }
            Err(e) => return Err(format!("read: {}", e)),
        }
    }
}

/// what the helper process executes for one request line:
/// `{"case": <SearchCase>, "iter_limit": <u64 or null>}` (the limit is the search instance's
/// iteration limit, applied to every sub-search; C10 uses it)
pub fn yens_server_handle(line: &str) -> String {
    #[derive(Deserialize)]
    struct Req {
        case: SearchCase,
        #[serde(default)]
        iter_limit: Option<u64>,
    }
    let out: RunOutcome = match serde_json::from_str::<Req>(line) {
        Err(e) => RunOutcome::IsolationFailed(format!("server cannot decode case: {}", e)),
        Ok(Req { case, iter_limit }) => {
            let opts = BuildOpts {
                termination: iter_limit.map(|limit| {
                    routee_compass_core::model::termination::termination_model::TerminationModel::IterationsLimit { limit }
                }),
                ..BuildOpts::default()
            };
            match build_si(&case.spec, opts) {
                Err(e) => RunOutcome::Done(Err(ErrKind::Build(e))),
                Ok(built) => match crate::engine::guard(|| run_plain(&case, &built.si)) {
                    Ok(r) => RunOutcome::Done(r),
                    Err((loc, msg)) => RunOutcome::YensPanic(loc, msg),
                },
            }
        }
    };
    serde_json::to_string(&out).unwrap_or_else(|_| "null".to_string())
}

pub fn yens_server_main() -> ! {
    use std::io::{BufRead, Write};
    unsafe {
        libc::prctl(libc::PR_SET_PDEATHSIG, libc::SIGKILL);
    }
    crate::engine::install_panic_hook();
    let stdin = std::io::stdin();
    let mut out = std::io::stdout();
    for line in stdin.lock().lines() {
        let line = match line {
            Ok(l) => l,
            Err(_) => break,
        };
        let resp = yens_server_handle(&line);
        if out
            .write_all(resp.as_bytes())
            .and_then(|_| out.write_all(b"\n"))
            .and_then(|_| out.flush())
            .is_err()
        {
            break;
        }
    }
    std::process::exit(0)
}

fn run_yens_isolated(case: &SearchCase) -> RunOutcome {
    run_yens_isolated_limited(case, None)
}

/// Yen in the helper process with an iteration limit on the search instance (None = the default)
pub fn run_yens_isolated_limited(case: &SearchCase, iter_limit: Option<u64>) -> RunOutcome {
    let line = match serde_json::to_string(&serde_json::json!({"case": case, "iter_limit": iter_limit})) {
        Ok(l) => l,
        Err(e) => return RunOutcome::IsolationFailed(e.to_string()),
    };
    YENS_SERVER.with(|cell| {
        let mut slot = cell.borrow_mut();
        if slot.is_none() {
            match spawn_server() {
                Ok(s) => *slot = Some(s),
                Err(e) => return RunOutcome::IsolationFailed(e),
            }
        }
        let server = slot.as_mut().unwrap();
        match request(server, &line, std::time::Duration::from_millis(YENS_BUDGET_MS)) {
            Ok(resp) => serde_json::from_str::<RunOutcome>(&resp)
                .unwrap_or_else(|e| RunOutcome::IsolationFailed(format!("decode: {}", e))),
            Err(e) => {
                // kill and respawn lazily
                *slot = None;
                if e == "timeout" {
                    RunOutcome::YensUnbounded
                } else {
                    RunOutcome::IsolationFailed(e)
                }
            }
        }
    })
}

/// runs the case; Yen runs in the isolated helper process (see `RunOutcome`)
pub fn run_search(case: &SearchCase, si: &SearchInstance) -> RunOutcome {
    if let AlgSpec::Yens { underlying, .. } = &case.alg {
        let k = case.effective_k();
        if let (sv, Some(tv)) = case.vertex_endpoints() {
            if sv != tv && k >= 2 {
                let probe = SearchCase {
                    alg: (**underlying).clone(),
                    edge_oriented: false,
                    reverse: false,
                    o: sv,
                    d: Some(tv),
                    query_k: None,
                    ..case.clone()
                };
                if let Ok(r) = run_plain(&probe, si) {
                    let len = r.routes.first().map(|r| r.len()).unwrap_or(0);
                    if (1..=2).contains(&len) {
                        return RunOutcome::YensShortPathNotExecuted(len);
                    }
                }
            }
        }
        return run_yens_isolated(case);
    }
    RunOutcome::Done(run_plain(case, si))
}

// ---------------------------------------------------------------------------------------
// validity predicates

pub fn route_ids(route: &[EdgeTraversal]) -> Vec<usize> {
    route.iter().map(|e| e.edge_id.0).collect()
}

/// forward walk from vertex `o` to vertex `d`
pub fn walk_forward(g: &RefGraph, ids: &[usize], o: usize, d: usize) -> Result<(), String> {
    if ids.is_empty() {
        return Err("empty-route".into());
    }
    if let Some(bad) = ids.iter().find(|e| **e >= g.m()) {
        return Err(format!("edge-id-out-of-range:{}", bad));
    }
    if g.edges[ids[0]].src != o {
        return Err("first-edge-does-not-leave-origin".into());
    }
    for w in ids.windows(2) {
        if g.edges[w[0]].dst != g.edges[w[1]].src {
            return Err("not-contiguous".into());
        }
    }
    if g.edges[*ids.last().unwrap()].dst != d {
        return Err("last-edge-does-not-arrive-at-destination".into());
    }
    let set: HashSet<usize> = ids.iter().cloned().collect();
    if set.len() != ids.len() {
        return Err("repeated-edge".into());
    }
    Ok(())
}

/// a route returned in reverse *search order* (first edge arrives at the search origin)
pub fn walk_reverse(g: &RefGraph, ids: &[usize], o: usize, d: usize) -> Result<(), String> {
    walk_forward(&g.reversed(), ids, o, d)
}

/// edge-oriented: first = origin edge, last = destination edge, contiguous, no repeats
pub fn walk_edge_oriented(g: &RefGraph, ids: &[usize], eo: usize, ed: usize) -> Result<(), String> {
    if ids.is_empty() {
        return Err("empty-route".into());
    }
    if let Some(bad) = ids.iter().find(|e| **e >= g.m()) {
        return Err(format!("edge-id-out-of-range:{}", bad));
    }
    if ids[0] != eo {
        return Err("first-edge-is-not-origin-edge".into());
    }
    if *ids.last().unwrap() != ed {
        return Err("last-edge-is-not-destination-edge".into());
    }
    for w in ids.windows(2) {
        if g.edges[w[0]].dst != g.edges[w[1]].src {
            return Err("not-contiguous".into());
        }
    }
    let set: HashSet<usize> = ids.iter().cloned().collect();
    if set.len() != ids.len() {
        return Err("repeated-edge".into());
    }
    Ok(())
}

pub fn visits_vertex_twice(g: &RefGraph, ids: &[usize]) -> bool {
    if ids.is_empty() {
        return false;
    }
    let mut seen = HashSet::new();
    seen.insert(g.edges[ids[0]].src);
    for e in ids {
        if !seen.insert(g.edges[*e].dst) {
            return true;
        }
    }
    false
}

/// tree rooted at `root` in `reverse`-or-forward direction.
/// `root_marker`: for edge-oriented searches the root may carry an entry holding the origin
/// edge (its parent lies outside the vertex-oriented sub-search); the walk stops there.
pub fn check_tree(
    g: &RefGraph,
    tree_list: &[PlainBranch],
    root: usize,
    reverse: bool,
    root_marker: Option<usize>,
) -> Result<(), String> {
    struct B {
        terminal_vertex: VertexId,
    }
    let mut tree: HashMap<VertexId, B> = HashMap::new();
    for pb in tree_list {
        if tree
            .insert(VertexId(pb.vertex), B { terminal_vertex: VertexId(pb.parent) })
            .is_some()
        {
            return Err("tree-has-duplicate-vertex".into());
        }
    }
    for pb in tree_list.iter() {
        let (v, b) = (VertexId(pb.vertex), B { terminal_vertex: VertexId(pb.parent) });
        let e = pb.et.edge_id.0;
        if e >= g.m() {
            return Err(format!("tree-edge-id-out-of-range:{}", e));
        }
        if v.0 >= g.n || b.terminal_vertex.0 >= g.n {
            return Err("tree-vertex-out-of-range".into());
        }
        let (near, far) = if reverse {
            (g.edges[e].dst, g.edges[e].src)
        } else {
            (g.edges[e].src, g.edges[e].dst)
        };
        if near != b.terminal_vertex.0 || far != v.0 {
            return Err("tree-entry-edge-does-not-join-parent-to-vertex".into());
        }
        if v.0 == root {
            match root_marker {
                Some(m) if m == e => {}
                _ => return Err("tree-has-entry-for-search-origin".into()),
            }
        }
    }
    for (v, _) in tree.iter() {
        let mut cur = v.0;
        let mut seen = HashSet::new();
        seen.insert(cur);
        let mut steps = 0;
        while cur != root {
            let b = match tree.get(&VertexId(cur)) {
                Some(b) => b,
                None => return Err("tree-parent-chain-leaves-tree".into()),
            };
            cur = b.terminal_vertex.0;
            if cur != root && !seen.insert(cur) {
                return Err("tree-parent-chain-revisits-vertex".into());
            }
            steps += 1;
            if steps > g.n + 1 {
                return Err("tree-parent-chain-too-long".into());
            }
        }
    }
    Ok(())
}
