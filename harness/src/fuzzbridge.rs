//! coverage-guided stage: libFuzzer drives the *same* strategies and the *same* oracles.
//!
//! The fuzz target hands every input to [`one`].  The bytes are the random tape of proptest's
//! `PassThrough` generator, so a libFuzzer mutation of the bytes is a mutation of the decisions
//! the property's strategy takes (sizes, shapes, units, operation sequences); past the end of the
//! tape every decision is 0, i.e. the simplest choice.  The decoded case is judged by
//! `Prop::check` exactly as in the proptest tiers (same known-finding suppression by signature).
//! A failure is shrunk with the strategy's own value tree (bounded), written as the usual replay
//! file (the *case*, not the bytes, so `rcv <ID> --replay` runs it without libFuzzer), reported
//! with a VIOLATION line, and the process exits with status 1.
use crate::engine::{self, evaluate, KnownFindings, Prop, Stats, Tier};
use proptest::strategy::{BoxedStrategy, Strategy, ValueTree};
use proptest::test_runner::{Config, RngAlgorithm, TestRng, TestRunner};
use serde_json::{json, Value};
use std::collections::BTreeMap;
use std::io::Write;
use std::sync::Mutex;
use std::time::{Duration, Instant};

pub trait FuzzOne {
    fn one(&mut self, data: &[u8]);
}

struct Fuzzer<P: Prop> {
    prop: P,
    known: KnownFindings,
    strategy: BoxedStrategy<P::Case>,
}

struct Shared {
    id: String,
    started: Instant,
    stats: Stats,
    undecodable: u64,
    rule: String,
}

static SHARED: Mutex<Option<Shared>> = Mutex::new(None);

thread_local! {
    static FUZZER: std::cell::RefCell<Option<Box<dyn FuzzOne>>> = const { std::cell::RefCell::new(None) };
}

fn stats_file(id: &str) -> std::path::PathBuf {
    let dir = engine::verif_root().join("work").join("fuzz").join(id).join("stats");
    let _ = std::fs::create_dir_all(&dir);
    dir.join(format!("{}.json", std::process::id()))
}

fn dump() {
    if let Ok(g) = SHARED.lock() {
        if let Some(sh) = &*g {
            let v = json!({
                "property_id": sh.id,
                "evaluations": sh.stats.evaluations,
                "distinct_nontrivial": sh.stats.nontrivial.len(),
                "nontrivial_hashes": sh.stats.nontrivial.iter().collect::<Vec<_>>(),
                "undecodable_inputs": sh.undecodable,
                "classes": sh.stats.classes,
                "excluded": sh.stats.excluded,
                "samples": sh.stats.samples.iter().take(3).collect::<Vec<_>>(),
                "wall_s": sh.started.elapsed().as_secs_f64(),
                "rule": sh.rule,
            });
            let _ = std::fs::write(stats_file(&sh.id), serde_json::to_string(&v).unwrap_or_default());
        }
    }
}

extern "C" fn at_exit() {
    dump();
}

impl<P: Prop> FuzzOne for Fuzzer<P> {
    fn one(&mut self, data: &[u8]) {
        let rng = TestRng::from_seed(RngAlgorithm::PassThrough, data);
        let config = Config {
            failure_persistence: None,
            max_global_rejects: 64,
            max_local_rejects: 64,
            ..Config::default()
        };
        let mut runner = TestRunner::new_with_rng(config, rng);
        let mut tree = match self.strategy.new_tree(&mut runner) {
            Ok(t) => t,
            Err(_) => {
                if let Ok(mut g) = SHARED.lock() {
                    if let Some(sh) = g.as_mut() {
                        sh.undecodable += 1;
                    }
                }
                return;
            }
        };
        let case = tree.current();
        let mut excluded = BTreeMap::new();
        let (out, unlisted) = evaluate(&self.prop, &case, &self.known, &mut excluded, true);
        let n = {
            let mut g = SHARED.lock().unwrap_or_else(|e| e.into_inner());
            let sh = g.as_mut().expect("fuzz bridge initialised");
            sh.stats.record(&case, &out, false);
            for (k, v) in excluded {
                *sh.stats.excluded.entry(k).or_insert(0) += v;
            }
            sh.stats.evaluations
        };
        if n % 5000 == 0 {
            dump();
        }
        if let Some(f) = unlisted {
            // bounded shrinking on the strategy's value tree, same signature only
            let want = f.signature.clone();
            let t0 = Instant::now();
            let budget = self.prop.shrink_budget().max(Duration::from_secs(5));
            let mut best = case.clone();
            let mut best_detail = f.detail.clone();
            let mut iters = 0u32;
            if tree.simplify() {
                loop {
                    iters += 1;
                    if iters > self.prop.max_shrink_iters() || t0.elapsed() > budget {
                        break;
                    }
                    let c = tree.current();
                    let mut scratch = BTreeMap::new();
                    let (o, _) = evaluate(&self.prop, &c, &self.known, &mut scratch, false);
                    let same = o
                        .all_failures()
                        .iter()
                        .find(|x| x.signature == want && !self.known.is_known(self.prop.id(), &x.signature))
                        .map(|x| x.detail.clone());
                    match same {
                        Some(d) => {
                            best = c;
                            best_detail = d;
                            if !tree.simplify() {
                                break;
                            }
                        }
                        None => {
                            if !tree.complicate() {
                                break;
                            }
                        }
                    }
                }
            }
            let case_v = serde_json::to_value(&best).unwrap_or(Value::Null);
            let path = engine::write_replay(self.prop.id(), &want, 0, &case_v, &best_detail);
            println!(
                "VIOLATION property={} replay={} signature={}",
                self.prop.id(),
                path.display(),
                want
            );
            let d = serde_json::to_string(&best_detail).unwrap_or_default();
            let d = if d.len() > 1500 { format!("{}…", &d[..1500]) } else { d };
            println!("  detail: {}", d);
            let _ = std::io::stdout().flush();
            dump();
            unsafe { libc::_exit(1) };
        }
    }
}

pub fn make<P: Prop>(prop: P) -> Box<dyn FuzzOne> {
    // the quick tier's sizes: small cases, many executions per second
    let strategy = prop.strategy(Tier::Quick);
    if let Ok(mut g) = SHARED.lock() {
        *g = Some(Shared {
            id: prop.id().to_string(),
            started: Instant::now(),
            stats: Stats::default(),
            undecodable: 0,
            rule: prop.rule(),
        });
    }
    Box::new(Fuzzer {
        known: KnownFindings::load(),
        strategy,
        prop,
    })
}

/// called once from the fuzz target's `init:`; the property comes from RCV_FUZZ_PROP
pub fn init() {
    let id = std::env::var("RCV_FUZZ_PROP").unwrap_or_else(|_| {
        eprintln!("RCV_FUZZ_PROP is not set");
        std::process::exit(2);
    });
    // libfuzzer-sys installs a hook that aborts on any panic; the checks turn panics of the code
    // under test into judged outcomes (engine::guard), so the engine's recording hook replaces it
    engine::install_panic_hook();
    let f = crate::props::fuzzer(&id).unwrap_or_else(|| {
        eprintln!("unknown property {}", id);
        std::process::exit(2);
    });
    FUZZER.with(|c| *c.borrow_mut() = Some(f));
    unsafe {
        libc::atexit(at_exit);
    }
}

pub fn one(data: &[u8]) {
    FUZZER.with(|c| {
        if let Some(f) = c.borrow_mut().as_mut() {
            f.one(data);
        }
    });
}

/// deterministic starting corpus: pseudo-random tapes of several lengths plus a few constant ones
pub fn write_seed_corpus(dir: &std::path::Path, seed: u64) {
    let _ = std::fs::create_dir_all(dir);
    let mut x = seed.wrapping_mul(0x9E37_79B9_7F4A_7C15) ^ 0xD1B5_4A32_D192_ED03;
    if x == 0 {
        x = 1;
    }
    let mut next = move || {
        x ^= x >> 12;
        x ^= x << 25;
        x ^= x >> 27;
        x.wrapping_mul(0x2545_F491_4F6C_DD1D)
    };
    let lens = [16usize, 64, 128, 256, 512, 1024, 2048, 4096];
    let mut k = 0;
    for len in lens {
        for _ in 0..6 {
            let mut buf = Vec::with_capacity(len);
            while buf.len() < len {
                buf.extend_from_slice(&next().to_le_bytes());
            }
            buf.truncate(len);
            let _ = std::fs::write(dir.join(format!("seed-{:03}", k)), &buf);
            k += 1;
        }
    }
    for (name, byte) in [("zeros", 0u8), ("ones", 0xffu8), ("mid", 0x80u8)] {
        let _ = std::fs::write(dir.join(format!("seed-{}", name)), vec![byte; 1024]);
    }
}

/// adds `coverage.fuzz` to evidence/<id>.json from the per-process statistics files and logs
pub fn merge_evidence(id: &str, status: &str, jobs: u64, runs: u64) {
    let root = engine::verif_root();
    let wdir = root.join("work").join("fuzz").join(id);
    let mut evaluations = 0u64;
    let mut undecodable = 0u64;
    let mut hashes = std::collections::HashSet::new();
    let mut classes: BTreeMap<String, u64> = BTreeMap::new();
    let mut excluded: BTreeMap<String, u64> = BTreeMap::new();
    let mut samples: Vec<Value> = vec![];
    let mut wall = 0f64;
    if let Ok(rd) = std::fs::read_dir(wdir.join("stats")) {
        for e in rd.flatten() {
            let v: Value = match std::fs::read_to_string(e.path()).ok().and_then(|t| serde_json::from_str(&t).ok()) {
                Some(v) => v,
                None => continue,
            };
            evaluations += v["evaluations"].as_u64().unwrap_or(0);
            undecodable += v["undecodable_inputs"].as_u64().unwrap_or(0);
            if let Some(a) = v["nontrivial_hashes"].as_array() {
                for h in a {
                    if let Some(h) = h.as_u64() {
                        hashes.insert(h);
                    }
                }
            }
            for (key, into) in [("classes", &mut classes), ("excluded", &mut excluded)] {
                if let Some(o) = v[key].as_object() {
                    for (k, n) in o {
                        *into.entry(k.clone()).or_insert(0) += n.as_u64().unwrap_or(0);
                    }
                }
            }
            if samples.len() < 3 {
                if let Some(a) = v["samples"].as_array() {
                    samples.extend(a.iter().take(1).cloned());
                }
            }
            wall = wall.max(v["wall_s"].as_f64().unwrap_or(0.0));
        }
    }
    // libFuzzer's own final numbers: last "cov: N ft: M corp: K" of every log
    let (mut cov, mut ft) = (0u64, 0u64);
    if let Ok(rd) = std::fs::read_dir(&wdir) {
        for e in rd.flatten() {
            let name = e.file_name().to_string_lossy().to_string();
            if !name.starts_with("job-") || !name.ends_with(".log") {
                continue;
            }
            if let Ok(t) = std::fs::read_to_string(e.path()) {
                for line in t.lines().rev() {
                    if let (Some(i), Some(j)) = (line.find(" cov: "), line.find(" ft: ")) {
                        let c = line[i + 6..].split_whitespace().next().and_then(|s| s.parse::<u64>().ok());
                        let f = line[j + 5..].split_whitespace().next().and_then(|s| s.parse::<u64>().ok());
                        cov = cov.max(c.unwrap_or(0));
                        ft = ft.max(f.unwrap_or(0));
                        break;
                    }
                }
            }
        }
    }
    let corpus_files = std::fs::read_dir(wdir.join("corpus")).map(|rd| rd.count()).unwrap_or(0);
    let epath = root.join("evidence").join(format!("{}.json", id));
    let mut ev: Value = match std::fs::read_to_string(&epath).ok().and_then(|t| serde_json::from_str(&t).ok()) {
        Some(v) => v,
        None => return,
    };
    ev["coverage"]["fuzz"] = json!({
        "engine": "libFuzzer (cargo-fuzz) over the property's own strategy: input bytes are the decision tape of proptest's PassThrough generator, the oracle is the same Prop::check",
        "status": status,
        "processes": jobs,
        "runs_per_process": runs,
        "evaluations": evaluations,
        "distinct_nontrivial": hashes.len(),
        "inputs_rejected_by_generator": undecodable,
        "classes": classes,
        "excluded": excluded,
        "samples": samples,
        "libfuzzer_edges_covered": cov,
        "libfuzzer_features": ft,
        "final_corpus_files": corpus_files,
        "wall_s": wall,
    });
    let _ = std::fs::write(&epath, serde_json::to_string_pretty(&ev).unwrap_or_default());
}
