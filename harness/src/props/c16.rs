//! C16 — map matching picks the nearest admissible element and honours the tolerance
use crate::appbuild::write_text;
use crate::engine::{pick_idx, CaseDir, Outcome, Prop, Tier};
use crate::props::c04::{row_value, vehicle_strategy, RowSpec, VehicleSpec, DIST_NAMES, KIND_NAMES, WEIGHT_NAMES};
use crate::refmodel::*;
use geo::{Centroid, LineString};
use proptest::prelude::*;
use routee_compass::app::compass::config::builders::InputPluginBuilder;
use routee_compass::plugin::input::input_plugin::InputPlugin;
use serde::{Deserialize, Serialize};
use serde_json::{json, Value};

#[derive(Clone, Debug, Serialize, Deserialize)]
pub enum QCoord {
    /// exactly at candidate i
    At(u16),
    /// near candidate i: offset in units of 1e-4 degrees
    Near(u16, i8, i8),
    /// midpoint between candidates i and j (ties on lattices)
    Between(u16, u16),
    /// anywhere in the window (fractions)
    Window(f64, f64),
    /// far away: offset in degrees
    Far(f32, f32),
    /// outside the valid coordinate range
    OutOfRange(bool),
}

#[derive(Clone, Debug, Serialize, Deserialize)]
pub struct QSpec {
    pub origin: QCoord,
    pub destination: Option<QCoord>,
    pub extra_fields: u8,
    /// allowed road classes in the query (edge matching only)
    pub classes: Option<Vec<u8>>,
    pub with_vehicle: bool,
}

#[derive(Clone, Debug, Serialize, Deserialize)]
pub struct C16Case {
    /// candidate points: vertices, or the way points of the edge geometries
    pub points: Vec<(f32, f32)>,
    /// None = vertex matching; Some = number of points per edge geometry (2..5)
    pub edge_points: Option<Vec<u8>>,
    pub tolerance: Option<(f64, u8)>,
    pub class_table: Option<Vec<u8>>,
    pub rows: Option<(Vec<RowSpec>, VehicleSpec)>,
    pub queries: Vec<QSpec>,
}

pub struct C16;

const LON0: f32 = -105.0;
const LAT0: f32 = 39.7;

fn extra_value(i: usize) -> Value {
    match i % 6 {
        0 => json!("text"),
        1 => json!(17),
        2 => json!(2.5),
        3 => json!(null),
        4 => json!([1, "a", {"b": 2}]),
        _ => json!({"nested": {"deep": true}}),
    }
}

impl C16Case {
    fn candidates(&self) -> Vec<Vec<(f32, f32)>> {
        match &self.edge_points {
            None => self.points.iter().map(|p| vec![*p]).collect(),
            Some(counts) => {
                let mut out = vec![];
                let mut i = 0;
                for c in counts {
                    let k = (*c).clamp(2, 5) as usize;
                    if i + k > self.points.len() {
                        break;
                    }
                    out.push(self.points[i..i + k].to_vec());
                    i += k;
                }
                out
            }
        }
    }
    fn coord(&self, q: &QCoord, anchors: &[(f32, f32)]) -> (f64, f64) {
        let n = anchors.len().max(1);
        let (minx, maxx, miny, maxy) = anchors.iter().fold(
            (f32::MAX, f32::MIN, f32::MAX, f32::MIN),
            |(a, b, c, d), p| (a.min(p.0), b.max(p.0), c.min(p.1), d.max(p.1)),
        );
        match q {
            QCoord::At(i) => {
                let p = anchors[pick_idx(*i, n)];
                (p.0 as f64, p.1 as f64)
            }
            QCoord::Near(i, dx, dy) => {
                let p = anchors[pick_idx(*i, n)];
                (p.0 as f64 + *dx as f64 * 1e-4, p.1 as f64 + *dy as f64 * 1e-4)
            }
            QCoord::Between(i, j) => {
                let a = anchors[pick_idx(*i, n)];
                let b = anchors[pick_idx(*j, n)];
                ((a.0 as f64 + b.0 as f64) / 2.0, (a.1 as f64 + b.1 as f64) / 2.0)
            }
            QCoord::Window(fx, fy) => (
                minx as f64 + fx * (maxx - minx) as f64,
                miny as f64 + fy * (maxy - miny) as f64,
            ),
            QCoord::Far(dx, dy) => ((maxx + dx.abs() + 1.0).min(179.0) as f64, (maxy + dy.abs() * 0.5).min(89.0) as f64),
            QCoord::OutOfRange(lon) => {
                if *lon {
                    (250.0, 40.0)
                } else {
                    (-100.0, 95.0)
                }
            }
        }
    }
}

fn centroid_f32(line: &[(f32, f32)]) -> (f32, f32) {
    if line.len() == 1 {
        return line[0];
    }
    let ls: LineString<f32> = line.iter().map(|p| (p.0, p.1)).collect::<Vec<_>>().into();
    let c = ls.centroid().map(|p| (p.x(), p.y())).unwrap_or(line[0]);
    c
}

fn coord_strategy() -> impl Strategy<Value = QCoord> {
    prop_oneof![
        2 => any::<u16>().prop_map(QCoord::At),
        4 => (any::<u16>(), -30i8..30, -30i8..30).prop_map(|(i, a, b)| QCoord::Near(i, a, b)),
        3 => (any::<u16>(), any::<u16>()).prop_map(|(i, j)| QCoord::Between(i, j)),
        3 => (-0.2f64..1.2, -0.2f64..1.2).prop_map(|(a, b)| QCoord::Window(a, b)),
        2 => (0.0f32..60.0, 0.0f32..60.0).prop_map(|(a, b)| QCoord::Far(a, b)),
        1 => any::<bool>().prop_map(QCoord::OutOfRange),
    ]
}

/// tolerance as the configuration writes it; metres may be left implicit (the default unit)
fn tolerance_keys(cfg: &mut serde_json::Map<String, serde_json::Value>, tolerance: Option<(f64, u8)>) {
    if let Some((v, u)) = tolerance {
        cfg.insert("distance_tolerance".into(), json!(v));
        let implicit = u as usize % 5 == 0 && (v as u64) % 2 == 0;
        if !implicit {
            cfg.insert("distance_unit".into(), json!(DIST_NAMES[u as usize % 5]));
        }
    }
}

impl Prop for C16 {
    type Case = C16Case;
    fn id(&self) -> &'static str {
        "C16"
    }
    fn rule(&self) -> String {
        "generated: 3-40 candidate vertices (lattice-snapped coordinates so exact ties occur) or 2-14 edge geometries with 2-5 points on a 0.5 degree window; origin and optional destination coordinates at a candidate, near one, between two, anywhere in/around the window, 1-60 degrees away and out of range; tolerance none or 1 m - 500 km in any distance unit; for edges a road-class table with per-query allowed classes and a vehicle-restriction file with per-query vehicle parameters; extra query fields of all JSON types. The plugins are built from files. Oracle: exhaustive scan with the plugin's own measure in f32 (squared coordinate distance to the vertex / to the geometry's centroid) over admissible candidates, tolerance judged in great-circle metres (f64) with a +-1 % +- 5 m band, all non-id query fields unchanged. non-trivial = at least 3 candidates and the nearest one is inadmissible or beyond the tolerance".to_string()
    }
    fn cases(&self, tier: Tier) -> u32 {
        tier.pick(20_000, 300_000)
    }
    fn assumptions(&self) -> Vec<String> {
        vec![
            "ties under the plugin's measure may be resolved either way".into(),
            "the tolerance is judged on the nearest admissible candidate under the plugin's measure; within 1 % + 5 m of the tolerance either outcome is accepted (f32 haversine)".into(),
            "vehicle restrictions only apply when the query carries complete vehicle parameters (the plugin's documented behaviour)".into(),
        ]
    }
    fn strategy(&self, _tier: Tier) -> BoxedStrategy<C16Case> {
        let pts = proptest::collection::vec((0u16..50, 0u16..50, any::<bool>(), 0u16..1000, 0u16..1000), 3..40).prop_map(|v| {
            v.into_iter()
                .map(|(a, b, snap, ja, jb)| {
                    let (fa, fb) = if snap { (0.0, 0.0) } else { (ja as f32 * 1e-5, jb as f32 * 1e-5) };
                    (LON0 + a as f32 * 0.01 + fa, LAT0 + b as f32 * 0.01 + fb)
                })
                .collect::<Vec<(f32, f32)>>()
        });
        let tol = proptest::option::weighted(
            0.7,
            ((0.0f64..5.7).prop_map(|e| 10f64.powf(e)), 0u8..5).prop_map(|(metres, unit)| {
                // tolerance given in `unit`
                let v = metres / dist_si(DISTANCE_UNITS[unit as usize % 5]);
                (v, unit)
            }),
        );
        let query = (
            coord_strategy(),
            proptest::option::weighted(0.6, coord_strategy()),
            0u8..5,
            // present-but-empty lists too: no class allowed, every edge excluded
            proptest::option::weighted(0.6, prop_oneof![1 => Just(vec![]), 9 => proptest::collection::vec(0u8..4, 1..4)]),
            proptest::bool::weighted(0.7),
        )
            .prop_map(|(origin, destination, extra_fields, classes, with_vehicle)| QSpec {
                origin,
                destination,
                extra_fields,
                classes,
                with_vehicle,
            });
        (
            pts,
            proptest::option::weighted(0.55, proptest::collection::vec(2u8..=5, 2..14)),
            tol,
            proptest::option::weighted(0.6, proptest::collection::vec(0u8..4, 14)),
            proptest::option::weighted(
                0.5,
                (
                    proptest::collection::vec(
                        (any::<u16>(), 0u8..6, 0u8..5, prop_oneof![(0.5f64..0.99), (1.01f64..2.0)]),
                        0..8,
                    ),
                    vehicle_strategy(),
                ),
            ),
            proptest::collection::vec(query, 5..40),
        )
            .prop_map(|(points, edge_points, tolerance, class_table, rows, queries)| {
                let n_edges = edge_points.as_ref().map(|e| e.len()).unwrap_or(0).max(1);
                C16Case {
                    points,
                    edge_points,
                    tolerance,
                    class_table,
                    rows: rows.map(|(r, v)| {
                        (
                            r.into_iter()
                                .map(|(e, kind, unit, ratio)| RowSpec {
                                    edge: pick_idx(e, n_edges),
                                    kind,
                                    unit,
                                    ratio: (ratio * 1000.0).round() / 1000.0,
                                })
                                .collect(),
                            v,
                        )
                    }),
                    queries,
                }
            })
            .boxed()
    }
    fn check(&self, c: &C16Case) -> Outcome {
        let mut o = Outcome::new();
        let cands = c.candidates();
        if cands.len() < 2 {
            return o;
        }
        let is_edge = c.edge_points.is_some();
        o.label(if is_edge { "edge-matching" } else { "vertex-matching" });
        let dir = CaseDir::new();
        let tol_m: Option<f64> = c.tolerance.map(|(v, u)| v * dist_si(DISTANCE_UNITS[u as usize % 5]));
        if let Some((_, u)) = c.tolerance {
            o.label(format!("tolerance-unit-{}", DIST_NAMES[u as usize % 5]));
        } else {
            o.label("no-tolerance");
        }
        let plugin: std::sync::Arc<dyn InputPlugin> = if !is_edge {
            let vp = dir.file("vertices.csv");
            let mut text = String::from("vertex_id,x,y\n");
            for (i, p) in cands.iter().enumerate() {
                text.push_str(&format!("{},{},{}\n", i, p[0].0, p[0].1));
            }
            if write_text(&vp, &text, false).is_err() {
                return o;
            }
            // through the application's plugin builder (configuration JSON -> constructor)
            let mut cfg = serde_json::Map::new();
            cfg.insert("type".into(), json!("vertex_rtree"));
            cfg.insert("vertices_input_file".into(), json!(vp.to_string_lossy().to_string()));
            tolerance_keys(&mut cfg, c.tolerance);
            match (routee_compass::plugin::input::default::vertex_rtree::builder::VertexRTreeBuilder {}).build(&serde_json::Value::Object(cfg)) {
                Ok(p) => p,
                Err(e) => {
                    o.fail("C16/vertex/build-error", json!({"error": e.to_string()}));
                    return o;
                }
            }
        } else {
            let gp = dir.file("geometries.txt");
            let text: String = cands
                .iter()
                .map(|l| format!("LINESTRING ({})\n", l.iter().map(|(x, y)| format!("{} {}", x, y)).collect::<Vec<_>>().join(", ")))
                .collect();
            if write_text(&gp, &text, false).is_err() {
                return o;
            }
            let class_file = c.class_table.as_ref().map(|t| {
                let cp = dir.file("classes.txt");
                let ct: String = (0..cands.len()).map(|i| format!("{}\n", t[i % t.len()])).collect();
                let _ = write_text(&cp, &ct, false);
                cp.to_string_lossy().to_string()
            });
            let restr_file = c.rows.as_ref().map(|(rows, v)| {
                let rp = dir.file("restrictions.csv");
                let mut rt = String::from("edge_id,restriction_name,restriction_value,restriction_unit\n");
                for r in rows.iter().filter(|r| r.edge < cands.len()) {
                    let unit = if r.kind <= 1 { WEIGHT_NAMES[r.unit as usize % 3] } else { DIST_NAMES[r.unit as usize % 5] };
                    rt.push_str(&format!("{},{},{},{}\n", r.edge, KIND_NAMES[r.kind as usize % 6], row_value(v, r), unit));
                }
                let _ = write_text(&rp, &rt, false);
                rp.to_string_lossy().to_string()
            });
            let mut cfg = serde_json::Map::new();
            cfg.insert("type".into(), json!("edge_rtree"));
            cfg.insert("geometry_input_file".into(), json!(gp.to_string_lossy().to_string()));
            if let Some(f) = class_file {
                cfg.insert("road_class_input_file".into(), json!(f));
            }
            if let Some(f) = restr_file {
                cfg.insert("vehicle_restriction_input_file".into(), json!(f));
            }
            tolerance_keys(&mut cfg, c.tolerance);
            match (routee_compass::plugin::input::default::edge_rtree::edge_rtree_input_plugin_builder::EdgeRtreeInputPluginBuilder {}).build(&serde_json::Value::Object(cfg)) {
                Ok(p) => p,
                Err(e) => {
                    o.fail("C16/edge/build-error", json!({"error": e.to_string()}));
                    return o;
                }
            }
        };
        let anchors: Vec<(f32, f32)> = cands.iter().map(|l| centroid_f32(l)).collect();
        let kind = if is_edge { "edge" } else { "vertex" };
        for (qi, q) in c.queries.iter().enumerate() {
            let (ox, oy) = c.coord(&q.origin, &anchors);
            let dest = q.destination.as_ref().map(|d| c.coord(d, &anchors));
            let mut obj = serde_json::Map::new();
            for i in 0..q.extra_fields as usize {
                obj.insert(format!("field_{}", i), extra_value(i + qi));
            }
            obj.insert("origin_x".into(), json!(ox));
            obj.insert("origin_y".into(), json!(oy));
            if let Some((dx, dy)) = dest {
                obj.insert("destination_x".into(), json!(dx));
                obj.insert("destination_y".into(), json!(dy));
            }
            let classes = if is_edge { q.classes.clone() } else { None };
            if let Some(cl) = &classes {
                obj.insert("road_classes".into(), json!(cl));
            }
            let vehicle = if is_edge && q.with_vehicle { c.rows.as_ref().map(|(_, v)| v.clone()) } else { None };
            if let Some(v) = &vehicle {
                obj.insert(
                    "vehicle_parameters".into(),
                    json!({
                        "height": [v.height.0, DIST_NAMES[v.height.1 as usize % 5]],
                        "width": [v.width.0, DIST_NAMES[v.width.1 as usize % 5]],
                        "total_length": [v.total_length.0, DIST_NAMES[v.total_length.1 as usize % 5]],
                        "trailer_length": [v.trailer_length.0, DIST_NAMES[v.trailer_length.1 as usize % 5]],
                        "total_weight": [v.total_weight.0, WEIGHT_NAMES[v.total_weight.1 as usize % 3]],
                        "number_of_axles": v.axles,
                    }),
                );
            }
            let before = Value::Object(obj);
            // every other vehicle query is preceded, on the same plugin, by its twin without a
            // vehicle description (same coordinates and classes): an answer belongs to one query
            if vehicle.is_some() && qi % 2 == 0 {
                let mut twin = before.clone();
                if let Some(t) = twin.as_object_mut() {
                    t.remove("vehicle_parameters");
                }
                let _ = plugin.process(&mut twin);
                o.label("same-coordinates-asked-first-without-vehicle");
            }
            let mut query = before.clone();
            let result = plugin.process(&mut query);
            // admissibility of each candidate for this query
            let admissible = |i: usize| -> bool {
                if !is_edge {
                    return true;
                }
                if let (Some(cl), Some(table)) = (&classes, &c.class_table) {
                    if !cl.contains(&table[i % table.len()]) {
                        return false;
                    }
                }
                if let (Some(_), Some((rows, _))) = (&vehicle, &c.rows) {
                    if rows.iter().any(|r| r.edge == i && r.ratio < 1.0) {
                        return false;
                    }
                }
                true
            };
            // expected per coordinate: set of acceptable ids, or "must fail", or "either"
            #[derive(Debug)]
            enum Want {
                Match(Vec<usize>),
                Fail,
                Either(Vec<usize>),
            }
            let mut nontrivial = false;
            let mut want_for = |x: f64, y: f64| -> Want {
                let (px, py) = (x as f32, y as f32);
                let d2: Vec<f32> = anchors
                    .iter()
                    .map(|a| {
                        let dx = a.0 - px;
                        let dy = a.1 - py;
                        dx * dx + dy * dy
                    })
                    .collect();
                let adm: Vec<usize> = (0..anchors.len()).filter(|i| admissible(*i)).collect();
                if adm.is_empty() {
                    return Want::Fail;
                }
                let min = adm.iter().map(|i| d2[*i]).fold(f32::INFINITY, f32::min);
                let winners: Vec<usize> = adm.iter().cloned().filter(|i| d2[*i] == min).collect();
                let overall_min = d2.iter().cloned().fold(f32::INFINITY, f32::min);
                if anchors.len() >= 3 && min > overall_min {
                    nontrivial = true;
                }
                match tol_m {
                    None => Want::Match(winners),
                    Some(t) => {
                        let in_range = (-180.0..=180.0).contains(&x) && (-90.0..=90.0).contains(&y);
                        if !in_range {
                            return Want::Fail;
                        }
                        let gcs: Vec<f64> = winners
                            .iter()
                            .map(|i| gc_m((px as f64, py as f64), (anchors[*i].0 as f64, anchors[*i].1 as f64)))
                            .collect();
                        let all_beyond = gcs.iter().all(|g| *g > t * 1.01 + 5.0);
                        let all_within = gcs.iter().all(|g| *g < t * 0.99 - 5.0);
                        if all_beyond {
                            if anchors.len() >= 3 {
                                nontrivial = true;
                            }
                            Want::Fail
                        } else if all_within {
                            Want::Match(winners)
                        } else {
                            Want::Either(winners)
                        }
                    }
                }
            };
            let want_o = want_for(ox, oy);
            let want_d = dest.map(|(x, y)| want_for(x, y));
            if nontrivial {
                o.nontrivial = true;
            }
            let (okey, dkey) = if is_edge { ("origin_edge", "destination_edge") } else { ("origin_vertex", "destination_vertex") };
            let ctx = json!({"query": before, "tolerance_m": tol_m, "candidates": anchors.len(), "want_origin": format!("{:?}", want_o), "want_destination": format!("{:?}", want_d),
                             "result": result.as_ref().map(|_| query.clone()).map_err(|e| e.to_string())});
            let must_fail = matches!(want_o, Want::Fail) || matches!(want_d, Some(Want::Fail));
            let may_fail = must_fail || matches!(want_o, Want::Either(_)) || matches!(want_d, Some(Want::Either(_)));
            match &result {
                Err(_) => {
                    if !may_fail {
                        o.fail(format!("C16/{}/coordinate-within-tolerance-not-matched", kind), ctx);
                        return o;
                    }
                    o.label("rejected");
                }
                Ok(()) => {
                    if must_fail {
                        o.fail(format!("C16/{}/match-beyond-tolerance-or-inadmissible", kind), ctx);
                        return o;
                    }
                    let got_o = query.get(okey).and_then(|v| v.as_u64()).map(|v| v as usize);
                    let ids_o = match &want_o {
                        Want::Match(w) | Want::Either(w) => w.clone(),
                        Want::Fail => vec![],
                    };
                    if got_o.map(|g| !ids_o.contains(&g)).unwrap_or(true) {
                        o.fail(format!("C16/{}/origin-is-not-the-nearest-admissible-candidate", kind), ctx);
                        return o;
                    }
                    match (&want_d, query.get(dkey)) {
                        (None, None) => {}
                        (None, Some(_)) => {
                            o.fail(format!("C16/{}/destination-id-without-destination-coordinate", kind), ctx);
                            return o;
                        }
                        (Some(w), got) => {
                            let ids = match w {
                                Want::Match(w) | Want::Either(w) => w.clone(),
                                Want::Fail => vec![],
                            };
                            let g = got.and_then(|v| v.as_u64()).map(|v| v as usize);
                            if g.map(|g| !ids.contains(&g)).unwrap_or(true) {
                                o.fail(format!("C16/{}/destination-is-not-the-nearest-admissible-candidate", kind), ctx);
                                return o;
                            }
                        }
                    }
                    // everything else unchanged, the ids the only additions
                    let mut stripped = query.clone();
                    if let Some(m) = stripped.as_object_mut() {
                        m.remove(okey);
                        m.remove(dkey);
                    }
                    if stripped != before {
                        o.fail(format!("C16/{}/other-query-fields-changed", kind), ctx);
                        return o;
                    }
                    o.label("matched");
                }
            }
        }
        o
    }
}
