//! C02 — the returned route has least total cost under the query's own objective
use crate::engine::{close, Outcome, Prop, Tier};
use crate::gen::*;
use crate::refmodel::*;
use crate::searchrun::*;
use crate::simodel::*;
use proptest::prelude::*;
use routee_compass_core::algorithm::search::edge_traversal::EdgeTraversal;
use routee_compass_core::model::network::{EdgeId, VertexId};
use routee_compass_core::model::unit::as_f64::AsF64;
use serde_json::json;

pub struct C02;

/// application-level case: the objective in force comes from the configuration and/or the query
#[derive(Clone, Debug, serde::Serialize, serde::Deserialize)]
pub struct C02App {
    /// `search.spec.cost` is the objective the *query* asks for (weights/rates in force)
    pub search: SearchCase,
    /// what the configuration file says (differs from the objective where the query overrides)
    pub cfg_w: (f64, f64),
    pub cfg_r: (RateSpec, RateSpec),
    /// 0 = weights from configuration, 1 = query gives all weights, 2 = query gives only the
    /// distance weight (replacing, not merging: the time weight in force is then 0)
    pub query_weights: u8,
    pub query_rates: bool,
    /// (with `query_rates`, speed models) the query's rate map names only the distance: the map
    /// replaces the configured one, a feature without a rate costs nothing (VehicleCostRate::Zero),
    /// so the time term is out of the objective in force although its weight is not zero
    #[serde(default)]
    pub omit_time_rate: bool,
}

#[derive(Clone, Debug, serde::Serialize, serde::Deserialize)]
#[serde(untagged)]
pub enum C02Case {
    App(C02App),
    Direct(SearchCase),
}

pub fn effective_wf(case: &SearchCase) -> f64 {
    match &case.alg {
        AlgSpec::Dijkstra => case.query_wf.unwrap_or(0.0),
        AlgSpec::AStar { wf } => case.query_wf.or(*wf).unwrap_or(1.0),
        _ => 0.0,
    }
}

fn direct_strategy(max_n: usize) -> BoxedStrategy<SearchCase> {
    // (uses_heuristic decides metric vs free lengths)
    any::<bool>()
        .prop_flat_map(move |heuristic| {
            let net = if heuristic {
                net_metric(max_n).boxed()
            } else {
                net_free(max_n).boxed()
            };
            (Just(heuristic), net)
        })
        .prop_flat_map(|(heuristic, net)| {
            let m = net.m();
            (
                Just(heuristic),
                Just(net),
                trav_strategy(m, true),
                state_strategy(),
                allowed_strategy(m),
                (any::<bool>(), any::<bool>(), any::<u16>(), any::<u16>()),
                // weight factors in (0, 1]
                prop_oneof![Just(1.0f64), (0.01f64..1.0).prop_map(|v| (v * 100.0).round() / 100.0)],
                0u8..6,
            )
        })
        .prop_flat_map(|(heuristic, net, trav, state, allowed, misc, wf, wf_source)| {
            let has_time = matches!(trav, TravSpec::Speed { .. });
            let m = net.m();
            (
                Just((heuristic, net, trav, state, allowed, misc, wf, wf_source)),
                cost_nonneg(m, has_time),
            )
        })
        .prop_map(|((heuristic, net, trav, state, allowed, misc, wf, wf_source), cost)| {
            let (edge_o, reverse, a, b) = misc;
            let n = net.n();
            let m = net.m();
            let edge_oriented = edge_o && m >= 2;
            let reverse = reverse && !edge_oriented;
            let (o, d) = if edge_oriented { od_pair(m, a, b) } else { od_pair(n, a, b) };
            // where the weight factor comes from: config, query, query overriding config, or
            // a query factor turning configured Dijkstra into A*
            let (alg, query_wf) = if !heuristic {
                // free lengths: no heuristic may be in force - either plain Dijkstra, or A*
                // configured with any factor and switched off by a query factor of exactly 0
                match wf_source {
                    4 => (AlgSpec::AStar { wf: Some(7.0) }, Some(0.0)),
                    5 => (AlgSpec::AStar { wf: None }, Some(0.0)),
                    _ => (AlgSpec::Dijkstra, None),
                }
            } else if wf_source >= 4 {
                // metric network, inadmissible configured factor, query asks for the exact search
                (AlgSpec::AStar { wf: Some(25.0) }, Some(0.0))
            } else {
                match wf_source {
                    0 => (AlgSpec::AStar { wf: Some(wf) }, None),
                    1 => (AlgSpec::AStar { wf: None }, None),
                    2 => (AlgSpec::AStar { wf: Some(7.0) }, Some(wf)),
                    _ => (AlgSpec::Dijkstra, Some(wf)),
                }
            };
            // the edge-oriented entry point takes the factor from the same places
            SearchCase {
                spec: SiSpec {
                    net,
                    trav,
                    access: None,
                    cost,
                    state,
                    allowed,
                    restricted_turns: vec![],
                },
                alg,
                edge_oriented,
                reverse,
                o,
                d: Some(d),
                query_wf,
                query_k: None,
            }
        })
        .boxed()
}

fn app_strategy(max_n: usize) -> BoxedStrategy<C02App> {
    let leaf = || prop_oneof![Just(RateSpec::Raw), (0.0f64..50.0).prop_map(|f| RateSpec::Factor((f * 16.0).round() / 16.0 + 0.0625))];
    (
        direct_strategy(max_n),
        weights_nonneg(true),
        (leaf(), leaf()),
        (leaf(), leaf()),
        0u8..3,
        any::<bool>(),
        proptest::bool::weighted(0.3),
    )
        .prop_map(|(mut search, cfg_w, cfg_r, q_r, query_weights, query_rates, omit_time_rate)| {
            search.edge_oriented = false;
            search.reverse = false;
            let n = search.spec.net.n();
            if search.o >= n {
                search.o = 0;
            }
            if search.d.map(|d| d >= n || d == search.o).unwrap_or(true) {
                search.d = Some((search.o + 1) % n);
            }
            search.spec.allowed = None;
            search.spec.cost.edge_surcharge = None;
            // rates expressible in a configuration file / query (no nested combined)
            search.spec.cost.r_dist = q_r.0;
            search.spec.cost.r_time = q_r.1;
            if query_weights == 2 {
                search.spec.cost.w_time = 0.0;
                if search.spec.cost.w_dist == 0.0 {
                    search.spec.cost.w_dist = 1.0;
                }
            }
            // in the application the features contributed by the traversal model replace the
            // configured ones: the state is kept in the speed model's own units, from zero
            if let TravSpec::Speed { dist_unit, time_unit, .. } = &search.spec.trav {
                search.spec.state = StateSpec {
                    dist_unit: *dist_unit,
                    dist_init: 0.0,
                    time_unit: *time_unit,
                    time_init: 0.0,
                };
            }
            if !matches!(search.spec.trav, TravSpec::Speed { .. }) {
                search.spec.cost.w_time = 0.0;
                if search.spec.cost.w_dist == 0.0 {
                    search.spec.cost.w_dist = 1.0;
                }
            }
            C02App {
                search,
                cfg_w,
                cfg_r,
                query_weights,
                query_rates,
                omit_time_rate,
            }
        })
        .boxed()
}

fn check_app(c: &C02App) -> Outcome {
    use crate::appbuild::*;
    let mut o = Outcome::new();
    o.label("through-application");
    o.label_if(c.query_weights > 0, "query-override-weights");
    o.label_if(c.query_weights == 2, "query-weights-omit-time");
    o.label_if(c.query_rates, "query-override-rates");
    o.label_if(c.search.query_wf.is_some(), "query-override-weight-factor");
    let sc = &c.search;
    let has_time = sc.spec.has_time();
    let omit_time = c.omit_time_rate && c.query_rates && has_time && sc.spec.cost.w_dist > 0.0;
    o.label_if(omit_time, "query-rates-omit-time");
    let mut app = AppSpec::simple(sc.spec.net.clone());
    app.trav = sc.spec.trav.clone();
    app.state = Some(sc.spec.state.clone());
    app.alg = sc.alg.clone();
    let obj = &sc.spec.cost;
    // configuration: the objective itself where the query does not override, something else where it does
    if c.query_weights > 0 {
        app.w_dist = c.cfg_w.0;
        app.w_time = c.cfg_w.1;
        if app.w_dist + app.w_time == 0.0 {
            app.w_dist = 1.0;
        }
    } else {
        app.w_dist = obj.w_dist;
        app.w_time = obj.w_time;
    }
    if c.query_rates {
        app.r_dist = c.cfg_r.0.clone();
        app.r_time = c.cfg_r.1.clone();
    } else {
        app.r_dist = obj.r_dist.clone();
        app.r_time = obj.r_time.clone();
    }
    let dir = crate::engine::CaseDir::new();
    let (capp, _files) = match build_app(&app, &dir) {
        Ok(a) => a,
        Err(e) => {
            o.fail("C02/app/build-error", json!({"error": e}));
            return o;
        }
    };
    let mut q = serde_json::Map::new();
    q.insert("origin_vertex".into(), json!(sc.o));
    q.insert("destination_vertex".into(), json!(sc.d.unwrap()));
    match c.query_weights {
        1 => {
            let mut w = serde_json::Map::new();
            w.insert(DIST.into(), json!(obj.w_dist));
            if has_time {
                w.insert(TIME.into(), json!(obj.w_time));
            }
            q.insert("weights".into(), serde_json::Value::Object(w));
        }
        2 => {
            q.insert("weights".into(), json!({DIST: obj.w_dist}));
        }
        _ => {}
    }
    if c.query_rates {
        let mut r = serde_json::Map::new();
        r.insert(DIST.into(), obj.r_dist.to_json());
        if has_time && !omit_time {
            r.insert(TIME.into(), obj.r_time.to_json());
        }
        q.insert("vehicle_rates".into(), serde_json::Value::Object(r));
    }
    if let Some(w) = sc.query_wf {
        q.insert("weight_factor".into(), json!(w));
    }
    let query = serde_json::Value::Object(q);
    let resp = match capp.run(vec![query.clone()], Some(&json!({"parallelism": 1}))) {
        Ok(r) if r.len() == 1 => r.into_iter().next().unwrap(),
        Ok(r) => {
            o.fail("C02/app/response-count", json!({"responses": r.len()}));
            return o;
        }
        Err(e) => {
            o.fail("C02/app/run-error", json!({"error": e.to_string()}));
            return o;
        }
    };
    if resp.get("error").is_some() {
        o.label("app-error-response");
        return o;
    }
    let ids: Vec<usize> = match resp.get("route").and_then(|r| r.get("path")).and_then(|p| p.as_array()) {
        Some(a) => a.iter().filter_map(|x| x.as_u64().map(|u| u as usize)).collect(),
        None => {
            o.fail("C02/app/no-route-path", json!({"response": resp}));
            return o;
        }
    };
    let g = sc.spec.net.ref_graph();
    if ids.iter().any(|e| *e >= g.m()) {
        return o;
    }
    let mut spec_in_force = sc.spec.clone();
    if omit_time {
        spec_in_force.cost.w_time = 0.0;
    }
    let ev = RefEval::new(&spec_in_force);
    let ref_cost: Vec<f64> = (0..g.m()).map(|e| ev.edge_cost(e)).collect();
    let dist = ref_sssp(&g, &ref_cost, &|_| true, sc.o);
    let opt = dist[sc.d.unwrap()];
    let got: f64 = ids.iter().map(|e| ref_cost[*e]).sum();
    o.nontrivial = ids.len() >= 2 && count_simple_paths(&g, sc.o, sc.d.unwrap(), 2) >= 2 && (c.query_weights > 0 || c.query_rates || sc.query_wf.is_some());
    if got > opt * (1.0 + 3e-3) + 1e-9 {
        o.fail(
            "C02/app/route-is-not-optimal-under-the-objective-in-force-for-the-query",
            json!({"query": query, "configured_weights": [app.w_dist, app.w_time], "route": ids, "reference_cost_of_route": got, "reference_optimum": opt,
                   "objective_in_force": {"w_dist": obj.w_dist, "w_time": obj.w_time, "r_dist": obj.r_dist, "r_time": obj.r_time}}),
        );
    }
    o
}

impl Prop for C02 {
    type Case = C02Case;
    fn id(&self) -> &'static str {
        "C02"
    }
    fn rule(&self) -> String {
        "generated: Dijkstra on networks with free lengths, A* (weight factor in (0,1] from configuration, default, query override, a query factor on configured Dijkstra, or a query factor of exactly 0 switching off any configured factor - also on free lengths) on metrically consistent networks (length >= 1.002 x great-circle + 1 m); distance or speed-table traversal in all unit combinations; non-negative weights with positive sum incl. zeros; rates raw / factor / combined; optional non-negative per-edge surcharge; optional edge-local restriction; forward and reverse; vertex and edge orientation; no access model; one case in 13 goes through a real application built from files whose configuration differs from the objective where the query overrides weights (all, or only some: replacing, not merging), vehicle rates (all, or only the distance rate: the map replaces the configured one and an unnamed feature costs nothing) or the weight factor. Oracles: (1) route cost = label-correcting reference optimum over the implementation's own per-edge costs (1e-9), (2) reference cost of the returned route under SI units <= reference optimum x 1.003, (3) A* cost = Dijkstra cost. non-trivial = returned route has >= 2 edges and at least one other simple origin-destination path exists".to_string()
    }
    fn strategy(&self, tier: Tier) -> BoxedStrategy<C02Case> {
        let n = tier.pick(14, 60);
        prop_oneof![
            12 => direct_strategy(n).prop_map(C02Case::Direct),
            // large networks (up to 400 / 1500 vertices): long optimal routes, large trees
            1 => prop_oneof![19 => direct_strategy(n), 1 => direct_strategy(tier.pick(400, 1500))].prop_map(C02Case::Direct),
            1 => app_strategy(n.min(20)).prop_map(C02Case::App),
        ]
        .boxed()
    }
    fn cases(&self, tier: Tier) -> u32 {
        tier.pick(60_000, 2_000_000)
    }
    fn assumptions(&self) -> Vec<String> {
        vec![
            "A* is only judged on networks that are metrically consistent by a margin (0.2 % + 1 m) exceeding the f32 error of the implementation's haversine".into(),
            "edge-oriented queries with adjacent origin/destination edges report both edges with real costs (by design); they are not judged against the vertex optimum".into(),
        ]
    }
    fn check(&self, case: &C02Case) -> Outcome {
        match case {
            C02Case::Direct(sc) => check_direct(sc),
            C02Case::App(a) => check_app(a),
        }
    }
}

fn check_direct(case: &SearchCase) -> Outcome {
    {
        let mut o = Outcome::new();
        let g = case.spec.net.ref_graph();
        let wf = effective_wf(case);
        o.label(if wf > 0.0 { "a-star" } else { "dijkstra" });
        o.label(if case.edge_oriented { "edge-oriented" } else { "vertex-oriented" });
        o.label_if(case.reverse, "reverse");
        o.label_if(case.query_wf.is_some(), "weight-factor-from-query");
        o.label(match &case.spec.trav {
            TravSpec::Distance { .. } => "distance-model",
            TravSpec::Speed { .. } => "speed-model",
        });
        let built = match build_si(&case.spec, BuildOpts::default()) {
            Ok(b) => b,
            Err(e) => {
                o.label(format!("build-error:{}", &e[..e.len().min(30)]));
                return o;
            }
        };
        let si = &built.si;
        // a search instance is reusable (the k-shortest-path algorithms run several searches on
        // one): in half of the cases the same instance first answers a search to another
        // destination, whose result is discarded - nothing of it may reach the judged search
        let domain = if case.edge_oriented { case.spec.net.m() } else { case.spec.net.n() };
        if (case.o + domain) % 2 == 0 && domain > 2 {
            if let Some(d0) = case.d {
                let other = (0..domain).map(|i| (d0 + 1 + i * 7) % domain).find(|x| *x != d0 && *x != case.o);
                if let Some(other) = other {
                    let mut pre = case.clone();
                    pre.d = Some(other);
                    let _ = run_search(&pre, si);
                    o.label("instance-answered-another-destination-first");
                }
            }
        }
        let res = match run_search(case, si) {
            RunOutcome::Done(Ok(r)) => r,
            RunOutcome::Done(Err(e)) => {
                o.label(e.label());
                return o;
            }
            _ => return o,
        };
        let route = match res.routes.first() {
            Some(r) if !r.is_empty() => r,
            _ => {
                o.label("empty-success");
                return o;
            }
        };
        let ids = route_ids(route);
        let (s_v, t_v) = case.vertex_endpoints();
        let t_v = t_v.unwrap();
        if case.edge_oriented && s_v == t_v {
            o.label("adjacent-edges-not-judged");
            return o;
        }
        // the vertex-level part of the route
        let inner: Vec<usize> = if case.edge_oriented {
            ids[1..ids.len() - 1].to_vec()
        } else {
            ids.clone()
        };
        let got_cost: f64 = route.iter().map(|e| e.total_cost().as_f64()).sum();
        // layer 1: optimality over the implementation's own edge costs
        let init = match si.state_model.initial_state() {
            Ok(s) => s,
            Err(_) => return o,
        };
        let mut impl_cost = vec![f64::INFINITY; g.m()];
        for e in 0..g.m() {
            let et = if case.reverse {
                EdgeTraversal::reverse_traversal(EdgeId(e), None, &init, si)
            } else {
                EdgeTraversal::forward_traversal(EdgeId(e), None, &init, si)
            };
            match et {
                Ok(et) => impl_cost[e] = et.total_cost().as_f64(),
                Err(err) => {
                    o.fail("C02/edge-cost/error", json!({"edge": e, "error": err.to_string()}));
                    return o;
                }
            }
        }
        let allowed = |e: usize| case.spec.edge_allowed(e);
        let (gg, src, dst) = if case.reverse {
            (g.reversed(), s_v, t_v)
        } else {
            (g.clone(), s_v, t_v)
        };
        let dist = ref_sssp(&gg, &impl_cost, &allowed, src);
        let opt = dist[dst];
        let ctx = json!({"route": ids, "route_cost": got_cost, "weight_factor": wf});
        if !opt.is_finite() {
            o.fail("C02/route-to-unreachable-destination", ctx);
            return o;
        }
        if !close(got_cost, opt, 1e-9, 1e-9) {
            let kind = if wf > 0.0 { "a-star" } else { "dijkstra" };
            o.fail(
                format!("C02/{}/route-cost-is-not-the-minimum", kind),
                json!({"ctx": ctx, "reference_minimum_over_impl_edge_costs": opt}),
            );
        }
        // layer 2: objective fidelity under the reference cost model (SI units)
        let ev = RefEval::new(&case.spec);
        let ref_cost: Vec<f64> = (0..g.m()).map(|e| ev.edge_cost(e)).collect();
        let ref_dist = ref_sssp(&gg, &ref_cost, &allowed, src);
        let ref_opt = ref_dist[dst];
        let ref_route: f64 = inner.iter().map(|e| ref_cost[*e]).sum();
        if ref_route > ref_opt * (1.0 + 3e-3) + 1e-9 {
            o.fail(
                "C02/objective/route-is-not-optimal-under-the-reference-cost-model",
                json!({"ctx": ctx, "reference_cost_of_route": ref_route, "reference_optimum": ref_opt}),
            );
        }
        // layer 3: A* and Dijkstra report the same route cost
        if wf > 0.0 {
            let dj = SearchCase {
                alg: AlgSpec::Dijkstra,
                query_wf: None,
                ..case.clone()
            };
            match run_plain(&dj, si) {
                Ok(r2) => {
                    let c2: f64 = r2
                        .routes
                        .first()
                        .map(|r| r.iter().map(|e| e.total_cost().as_f64()).sum())
                        .unwrap_or(f64::NAN);
                    if !close(c2, got_cost, 1e-9, 1e-9) {
                        o.fail(
                            "C02/a-star-and-dijkstra-disagree",
                            json!({"ctx": ctx, "dijkstra_cost": c2}),
                        );
                    }
                    if let (Some(ta), Some(td)) = (res.trees.first(), r2.trees.first()) {
                        o.label_if(ta.len() < td.len(), "pruned");
                    }
                }
                Err(e) => o.fail(
                    "C02/a-star-and-dijkstra-disagree",
                    json!({"ctx": ctx, "dijkstra_error": format!("{:?}", e)}),
                ),
            }
            if let Ok(h) = si.estimate_traversal_cost(VertexId(src), VertexId(dst), &init) {
                o.label_if(h.as_f64() * wf > 0.1 * opt, "heuristic-active");
            }
        }
        let alternatives = count_simple_paths(&gg, src, dst, 2);
        o.nontrivial = inner.len() >= 2 && alternatives >= 2;
        o.label_if(case.spec.cost.edge_surcharge.is_some(), "edge-surcharge");
        o.label_if(case.spec.allowed.is_some(), "restricted");
        o
    }
}
