//! C02 — the returned route has least total cost under the query's own objective
use crate::engine::{close, Outcome, Prop, Tier};
use crate::gen::*;
use crate::refmodel::*;
use crate::searchrun::*;
use crate::simodel::*;
use proptest::prelude::*;
use routee_compass_core::algorithm::search::edge_traversal::EdgeTraversal;
use routee_compass_core::model::network::{EdgeId, VertexId};
use routee_compass_core::model::unit::as_f64::AsF64;
use serde_json::json;

pub struct C02;

pub fn effective_wf(case: &SearchCase) -> f64 {
    match &case.alg {
        AlgSpec::Dijkstra => case.query_wf.unwrap_or(0.0),
        AlgSpec::AStar { wf } => case.query_wf.or(*wf).unwrap_or(1.0),
        _ => 0.0,
    }
}

fn strategy(max_n: usize) -> BoxedStrategy<SearchCase> {
    // (uses_heuristic decides metric vs free lengths)
    any::<bool>()
        .prop_flat_map(move |heuristic| {
            let net = if heuristic {
                net_metric(max_n).boxed()
            } else {
                net_free(max_n).boxed()
            };
            (Just(heuristic), net)
        })
        .prop_flat_map(|(heuristic, net)| {
            let m = net.m();
            (
                Just(heuristic),
                Just(net),
                trav_strategy(m, true),
                state_strategy(),
                allowed_strategy(m),
                (any::<bool>(), any::<bool>(), any::<u16>(), any::<u16>()),
                // weight factors in (0, 1]
                prop_oneof![Just(1.0f64), (0.01f64..1.0).prop_map(|v| (v * 100.0).round() / 100.0)],
                0u8..4,
            )
        })
        .prop_flat_map(|(heuristic, net, trav, state, allowed, misc, wf, wf_source)| {
            let has_time = matches!(trav, TravSpec::Speed { .. });
            let m = net.m();
            (
                Just((heuristic, net, trav, state, allowed, misc, wf, wf_source)),
                cost_nonneg(m, has_time),
            )
        })
        .prop_map(|((heuristic, net, trav, state, allowed, misc, wf, wf_source), cost)| {
            let (edge_o, reverse, a, b) = misc;
            let n = net.n();
            let m = net.m();
            let edge_oriented = edge_o && m >= 2;
            let reverse = reverse && !edge_oriented;
            let (o, d) = if edge_oriented { od_pair(m, a, b) } else { od_pair(n, a, b) };
            // where the weight factor comes from: config, query, query overriding config, or
            // a query factor turning configured Dijkstra into A*
            let (alg, query_wf) = if !heuristic {
                (AlgSpec::Dijkstra, None)
            } else {
                match wf_source {
                    0 => (AlgSpec::AStar { wf: Some(wf) }, None),
                    1 => (AlgSpec::AStar { wf: None }, None),
                    2 => (AlgSpec::AStar { wf: Some(7.0) }, Some(wf)),
                    _ => (AlgSpec::Dijkstra, Some(wf)),
                }
            };
            // the edge-oriented entry point takes the factor from the same places
            SearchCase {
                spec: SiSpec {
                    net,
                    trav,
                    access: None,
                    cost,
                    state,
                    allowed,
                    restricted_turns: vec![],
                },
                alg,
                edge_oriented,
                reverse,
                o,
                d: Some(d),
                query_wf,
                query_k: None,
            }
        })
        .boxed()
}

impl Prop for C02 {
    type Case = SearchCase;
    fn id(&self) -> &'static str {
        "C02"
    }
    fn rule(&self) -> String {
        "generated: Dijkstra on networks with free lengths, A* (weight factor in (0,1] from configuration, default, query override, or a query factor on configured Dijkstra) on metrically consistent networks (length >= 1.002 x great-circle + 1 m); distance or speed-table traversal in all unit combinations; non-negative weights with positive sum incl. zeros; rates raw / factor / combined; optional non-negative per-edge surcharge; optional edge-local restriction; forward and reverse; vertex and edge orientation; no access model. Oracles: (1) route cost = label-correcting reference optimum over the implementation's own per-edge costs (1e-9), (2) reference cost of the returned route under SI units <= reference optimum x 1.003, (3) A* cost = Dijkstra cost. non-trivial = returned route has >= 2 edges and at least one other simple origin-destination path exists".to_string()
    }
    fn strategy(&self, tier: Tier) -> BoxedStrategy<SearchCase> {
        strategy(tier.pick(14, 60))
    }
    fn cases(&self, tier: Tier) -> u32 {
        tier.pick(60_000, 2_000_000)
    }
    fn assumptions(&self) -> Vec<String> {
        vec![
            "A* is only judged on networks that are metrically consistent by a margin (0.2 % + 1 m) exceeding the f32 error of the implementation's haversine".into(),
            "edge-oriented queries with adjacent origin/destination edges report both edges with real costs (by design); they are not judged against the vertex optimum".into(),
        ]
    }
    fn check(&self, case: &SearchCase) -> Outcome {
        let mut o = Outcome::new();
        let g = case.spec.net.ref_graph();
        let wf = effective_wf(case);
        o.label(if wf > 0.0 { "a-star" } else { "dijkstra" });
        o.label(if case.edge_oriented { "edge-oriented" } else { "vertex-oriented" });
        o.label_if(case.reverse, "reverse");
        o.label_if(case.query_wf.is_some(), "weight-factor-from-query");
        o.label(match &case.spec.trav {
            TravSpec::Distance { .. } => "distance-model",
            TravSpec::Speed { .. } => "speed-model",
        });
        let built = match build_si(&case.spec, BuildOpts::default()) {
            Ok(b) => b,
            Err(e) => {
                o.label(format!("build-error:{}", &e[..e.len().min(30)]));
                return o;
            }
        };
        let si = &built.si;
        let res = match run_search(case, si) {
            RunOutcome::Done(Ok(r)) => r,
            RunOutcome::Done(Err(e)) => {
                o.label(e.label());
                return o;
            }
            _ => return o,
        };
        let route = match res.routes.first() {
            Some(r) if !r.is_empty() => r,
            _ => {
                o.label("empty-success");
                return o;
            }
        };
        let ids = route_ids(route);
        let (s_v, t_v) = case.vertex_endpoints();
        let t_v = t_v.unwrap();
        if case.edge_oriented && s_v == t_v {
            o.label("adjacent-edges-not-judged");
            return o;
        }
        // the vertex-level part of the route
        let inner: Vec<usize> = if case.edge_oriented {
            ids[1..ids.len() - 1].to_vec()
        } else {
            ids.clone()
        };
        let got_cost: f64 = route.iter().map(|e| e.total_cost().as_f64()).sum();
        // layer 1: optimality over the implementation's own edge costs
        let init = match si.state_model.initial_state() {
            Ok(s) => s,
            Err(_) => return o,
        };
        let mut impl_cost = vec![f64::INFINITY; g.m()];
        for e in 0..g.m() {
            let et = if case.reverse {
                EdgeTraversal::reverse_traversal(EdgeId(e), None, &init, si)
            } else {
                EdgeTraversal::forward_traversal(EdgeId(e), None, &init, si)
            };
            match et {
                Ok(et) => impl_cost[e] = et.total_cost().as_f64(),
                Err(err) => {
                    o.fail("C02/edge-cost/error", json!({"edge": e, "error": err.to_string()}));
                    return o;
                }
            }
        }
        let allowed = |e: usize| case.spec.edge_allowed(e);
        let (gg, src, dst) = if case.reverse {
            (g.reversed(), s_v, t_v)
        } else {
            (g.clone(), s_v, t_v)
        };
        let dist = ref_sssp(&gg, &impl_cost, &allowed, src);
        let opt = dist[dst];
        let ctx = json!({"route": ids, "route_cost": got_cost, "weight_factor": wf});
        if !opt.is_finite() {
            o.fail("C02/route-to-unreachable-destination", ctx);
            return o;
        }
        if !close(got_cost, opt, 1e-9, 1e-9) {
            let kind = if wf > 0.0 { "a-star" } else { "dijkstra" };
            o.fail(
                format!("C02/{}/route-cost-is-not-the-minimum", kind),
                json!({"ctx": ctx, "reference_minimum_over_impl_edge_costs": opt}),
            );
        }
        // layer 2: objective fidelity under the reference cost model (SI units)
        let ev = RefEval::new(&case.spec);
        let ref_cost: Vec<f64> = (0..g.m()).map(|e| ev.edge_cost(e)).collect();
        let ref_dist = ref_sssp(&gg, &ref_cost, &allowed, src);
        let ref_opt = ref_dist[dst];
        let ref_route: f64 = inner.iter().map(|e| ref_cost[*e]).sum();
        if ref_route > ref_opt * (1.0 + 3e-3) + 1e-9 {
            o.fail(
                "C02/objective/route-is-not-optimal-under-the-reference-cost-model",
                json!({"ctx": ctx, "reference_cost_of_route": ref_route, "reference_optimum": ref_opt}),
            );
        }
        // layer 3: A* and Dijkstra report the same route cost
        if wf > 0.0 {
            let dj = SearchCase {
                alg: AlgSpec::Dijkstra,
                query_wf: None,
                ..case.clone()
            };
            match run_plain(&dj, si) {
                Ok(r2) => {
                    let c2: f64 = r2
                        .routes
                        .first()
                        .map(|r| r.iter().map(|e| e.total_cost().as_f64()).sum())
                        .unwrap_or(f64::NAN);
                    if !close(c2, got_cost, 1e-9, 1e-9) {
                        o.fail(
                            "C02/a-star-and-dijkstra-disagree",
                            json!({"ctx": ctx, "dijkstra_cost": c2}),
                        );
                    }
                    if let (Some(ta), Some(td)) = (res.trees.first(), r2.trees.first()) {
                        o.label_if(ta.len() < td.len(), "pruned");
                    }
                }
                Err(e) => o.fail(
                    "C02/a-star-and-dijkstra-disagree",
                    json!({"ctx": ctx, "dijkstra_error": format!("{:?}", e)}),
                ),
            }
            if let Ok(h) = si.estimate_traversal_cost(VertexId(src), VertexId(dst), &init) {
                o.label_if(h.as_f64() * wf > 0.1 * opt, "heuristic-active");
            }
        }
        let alternatives = count_simple_paths(&gg, src, dst, 2);
        o.nontrivial = inner.len() >= 2 && alternatives >= 2;
        o.label_if(case.spec.cost.edge_surcharge.is_some(), "edge-surcharge");
        o.label_if(case.spec.allowed.is_some(), "restricted");
        o
    }
}
