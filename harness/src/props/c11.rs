//! C11 — every state feature owns exactly one slot; the ordered map behaves as an
//! insertion-ordered map at every size
use crate::engine::{pick_idx, Outcome, Prop, Tier};
use crate::refmodel::*;
use proptest::prelude::*;
use routee_compass_core::model::state::custom_feature_format::CustomFeatureFormat;
use routee_compass_core::model::state::state_feature::StateFeature;
use routee_compass_core::model::state::state_model::StateModel;
use routee_compass_core::model::traversal::state::state_variable::StateVar;
use routee_compass_core::model::unit::as_f64::AsF64;
use routee_compass_core::model::unit::{Distance, Energy, Time};
use routee_compass_core::util::compact_ordered_hash_map::CompactOrderedHashMap;
use serde::{Deserialize, Serialize};
use serde_json::json;

const POOL: usize = 12;

#[derive(Clone, Debug, Serialize, Deserialize)]
pub enum MapInit {
    Empty,
    /// distinct keys (the documented precondition of `new`)
    New(Vec<(u8, i32)>),
    /// keys may repeat (this is how `StateModel::extend` overwrites)
    FromIter(Vec<(u8, i32)>),
}

#[derive(Clone, Debug, Serialize, Deserialize)]
pub enum MapOp {
    Insert(u8, i32),
    CloneMap,
}

#[derive(Clone, Debug, Serialize, Deserialize)]
pub struct FeatSpec {
    pub name: u8,
    /// 0 distance 1 time 2 energy 3 custom f64 4 custom i64 5 custom u64 6 custom bool
    pub kind: u8,
    pub unit: u8,
    pub initial: f64,
}

#[derive(Clone, Debug, Serialize, Deserialize)]
pub enum StateOp {
    Set { f: u16, value: f64, unit: u8 },
    Add { f: u16, value: f64, unit: u8 },
    WrongKind { f: u16 },
}

#[derive(Clone, Debug, Serialize, Deserialize)]
pub enum C11Case {
    Map {
        init: MapInit,
        ops: Vec<MapOp>,
    },
    State {
        /// 0 new, 1 try_from(json), 2 empty.extend, 3 new(a).extend(b), 4 empty.extend(a).extend(b)
        path: u8,
        split: u16,
        features: Vec<FeatSpec>,
        /// re-declare feature `j` in the last extend call with another unit/initial (compatible overwrite)
        overwrite: Option<(u16, u8, f64)>,
        /// additionally try an incompatible overwrite (other kind) and expect an error
        incompatible: Option<u16>,
        ops: Vec<StateOp>,
    },
    /// many entries: `n` distinct keys (built by `new`, by `collect` or by inserts), then
    /// overwrites of the keys at these positions; a state model with `n` features when n <= 1500
    Big {
        n: usize,
        /// 0 new, 1 from_iter, 2 inserts
        path: u8,
        overwrite: Vec<u16>,
    },
}

pub struct C11;

fn key(k: u8) -> String {
    format!("feature_{}", k as usize % POOL)
}

fn kind_units(kind: u8) -> usize {
    match kind {
        0 => 5,
        1 => 4,
        2 => 3,
        _ => 1,
    }
}

fn feature(f: &FeatSpec) -> StateFeature {
    let u = f.unit as usize % kind_units(f.kind);
    match f.kind {
        0 => StateFeature::Distance {
            distance_unit: DISTANCE_UNITS[u],
            initial: Distance::new(f.initial),
        },
        1 => StateFeature::Time {
            time_unit: TIME_UNITS[u],
            initial: Time::new(f.initial),
        },
        2 => StateFeature::Energy {
            energy_unit: ENERGY_UNITS[u],
            initial: Energy::new(f.initial),
        },
        3 => StateFeature::Custom {
            r#type: "soc".into(),
            unit: "percent".into(),
            format: CustomFeatureFormat::FloatingPoint {
                initial: f.initial.into(),
            },
        },
        4 => StateFeature::Custom {
            r#type: "count".into(),
            unit: "signed".into(),
            format: CustomFeatureFormat::SignedInteger {
                initial: f.initial as i64,
            },
        },
        5 => StateFeature::Custom {
            r#type: "count".into(),
            unit: "unsigned".into(),
            format: CustomFeatureFormat::UnsignedInteger {
                initial: f.initial.abs() as u64,
            },
        },
        _ => StateFeature::Custom {
            r#type: "flag".into(),
            unit: "bool".into(),
            format: CustomFeatureFormat::Boolean {
                initial: f.initial > 25.0,
            },
        },
    }
}

/// declared initial value as a slot value
fn initial_slot(f: &FeatSpec) -> f64 {
    match f.kind {
        0..=3 => f.initial,
        4 => (f.initial as i64) as f64,
        5 => (f.initial.abs() as u64) as f64,
        _ => {
            if f.initial > 25.0 {
                1.0
            } else {
                0.0
            }
        }
    }
}

fn check_map(init: &MapInit, ops: &[MapOp], o: &mut Outcome) {
    let mut model: Vec<(String, i32)> = vec![];
    let model_insert = |model: &mut Vec<(String, i32)>, k: String, v: i32| -> Option<i32> {
        if let Some(slot) = model.iter_mut().find(|(mk, _)| *mk == k) {
            let old = slot.1;
            slot.1 = v;
            Some(old)
        } else {
            model.push((k, v));
            None
        }
    };
    let mut map: CompactOrderedHashMap<String, i32> = match init {
        MapInit::Empty => {
            o.label("init-empty");
            CompactOrderedHashMap::empty()
        }
        MapInit::New(entries) => {
            o.label("init-new");
            let e: Vec<(String, i32)> = entries.iter().map(|(k, v)| (key(*k), *v)).collect();
            for (k, v) in &e {
                model_insert(&mut model, k.clone(), *v);
            }
            CompactOrderedHashMap::new(e)
        }
        MapInit::FromIter(entries) => {
            o.label("init-from-iter");
            let e: Vec<(String, i32)> = entries.iter().map(|(k, v)| (key(*k), *v)).collect();
            for (k, v) in &e {
                model_insert(&mut model, k.clone(), *v);
            }
            e.into_iter().collect()
        }
    };
    let mut max_size = model.len();
    let mut overwrite_after_six = false;
    let verify = |map: &CompactOrderedHashMap<String, i32>, model: &Vec<(String, i32)>, step: usize, o: &mut Outcome| {
        let ctx = |what: &str| json!({"step": step, "what": what, "model": model, "len": map.len()});
        if map.len() != model.len() || map.is_empty() != model.is_empty() {
            o.fail("C11/map/len", ctx("len"));
            return;
        }
        for p in 0..POOL {
            let k = key(p as u8);
            let want = model.iter().position(|(mk, _)| *mk == k);
            if map.get(&k).copied() != want.map(|i| model[i].1) {
                o.fail("C11/map/get", ctx(&k));
                return;
            }
            if map.contains_key(&k) != want.is_some() {
                o.fail("C11/map/contains_key", ctx(&k));
                return;
            }
            if map.get_index(&k) != want {
                o.fail(
                    "C11/map/get_index",
                    json!({"ctx": ctx(&k), "got": map.get_index(&k), "want": want}),
                );
                return;
            }
        }
        for i in 0..model.len() + 2 {
            let got = map.get_pair(i).map(|(k, v)| (k.clone(), *v));
            let want = model.get(i).cloned();
            if got != want {
                o.fail(
                    "C11/map/get_pair",
                    json!({"ctx": ctx("get_pair"), "index": i, "got": got, "want": want}),
                );
                return;
            }
        }
        let keys: Vec<String> = map.keys().cloned().collect();
        if keys != model.iter().map(|(k, _)| k.clone()).collect::<Vec<_>>() {
            o.fail("C11/map/keys", json!({"ctx": ctx("keys"), "got": keys}));
            return;
        }
        let it: Vec<(String, i32)> = map.iter().map(|(k, v)| (k.clone(), *v)).collect();
        if &it != model {
            o.fail("C11/map/iter", json!({"ctx": ctx("iter"), "got": it}));
            return;
        }
        let iit: Vec<(usize, String, i32)> = map
            .indexed_iter()
            .map(|(i, (k, v))| (i, k.clone(), *v))
            .collect();
        if iit
            != model
                .iter()
                .enumerate()
                .map(|(i, (k, v))| (i, k.clone(), *v))
                .collect::<Vec<_>>()
        {
            o.fail("C11/map/indexed_iter", json!({"ctx": ctx("indexed_iter"), "got": iit}));
            return;
        }
        let tv: Vec<String> = map.to_vec().into_iter().map(|(k, _)| k).collect();
        if tv != model.iter().map(|(k, _)| k.clone()).collect::<Vec<_>>() {
            o.fail("C11/map/to_vec", json!({"ctx": ctx("to_vec"), "got": tv}));
            return;
        }
        let ii: Vec<String> = map.clone().into_iter().map(|(k, _)| k).collect();
        if ii != model.iter().map(|(k, _)| k.clone()).collect::<Vec<_>>() {
            o.fail("C11/map/into_iter", json!({"ctx": ctx("into_iter"), "got": ii}));
        }
    };
    verify(&map, &model, 0, o);
    for (step, op) in ops.iter().enumerate() {
        if o.failed() {
            return;
        }
        match op {
            MapOp::Insert(k, v) => {
                let want_prev = model_insert(&mut model, key(*k), *v);
                if want_prev.is_some() && model.len() >= 6 {
                    overwrite_after_six = true;
                }
                let got_prev = map.insert(key(*k), *v);
                if got_prev != want_prev {
                    o.fail(
                        "C11/map/insert-return",
                        json!({"step": step + 1, "got": got_prev, "want": want_prev}),
                    );
                    return;
                }
            }
            MapOp::CloneMap => {
                map = map.clone();
            }
        }
        max_size = max_size.max(model.len());
        verify(&map, &model, step + 1, o);
    }
    o.label(format!("max-size-{}", if max_size >= 7 { "7+".to_string() } else { max_size.to_string() }));
    o.nontrivial = max_size >= 6 && overwrite_after_six;
}

fn get_by_kind(sm: &StateModel, state: &[StateVar], f: &FeatSpec, unit: u8) -> Result<f64, String> {
    let name = key(f.name);
    let u = unit as usize % kind_units(f.kind);
    match f.kind {
        0 => sm
            .get_distance(state, &name, &DISTANCE_UNITS[u])
            .map(|d| d.as_f64())
            .map_err(|e| e.to_string()),
        1 => sm
            .get_time(state, &name, &TIME_UNITS[u])
            .map(|d| d.as_f64())
            .map_err(|e| e.to_string()),
        2 => sm
            .get_energy(state, &name, &ENERGY_UNITS[u])
            .map(|d| d.as_f64())
            .map_err(|e| e.to_string()),
        3 => sm.get_custom_f64(state, &name).map_err(|e| e.to_string()),
        4 => sm
            .get_custom_i64(state, &name)
            .map(|v| v as f64)
            .map_err(|e| e.to_string()),
        5 => sm
            .get_custom_u64(state, &name)
            .map(|v| v as f64)
            .map_err(|e| e.to_string()),
        _ => sm
            .get_custom_bool(state, &name)
            .map(|v| if v { 1.0 } else { 0.0 })
            .map_err(|e| e.to_string()),
    }
}

/// value given in `unit`, expressed in the feature's own unit (reference factors; energy uses
/// the implementation's conventions through a round trip, see below)
fn to_feature_unit(f: &FeatSpec, value: f64, unit: u8) -> Option<f64> {
    let fu = f.unit as usize % kind_units(f.kind);
    let u = unit as usize % kind_units(f.kind);
    match f.kind {
        0 => Some(conv_dist(value, DISTANCE_UNITS[u], DISTANCE_UNITS[fu])),
        1 => Some(conv_time(value, TIME_UNITS[u], TIME_UNITS[fu])),
        2 => {
            if u == fu {
                Some(value)
            } else {
                None // no physical reference for fuel equivalences: judged by round trip only
            }
        }
        _ => Some(value),
    }
}

fn check_state(
    path: u8,
    split: u16,
    features: &[FeatSpec],
    overwrite: &Option<(u16, u8, f64)>,
    incompatible: &Option<u16>,
    ops: &[StateOp],
    o: &mut Outcome,
) {
    let n = features.len();
    let mut feats: Vec<FeatSpec> = features.to_vec();
    let tuples: Vec<(String, StateFeature)> = feats.iter().map(|f| (key(f.name), feature(f))).collect();
    let a = pick_idx(split, n + 1);
    let path = path % 5;
    o.label(format!("path-{}", ["new", "try_from_json", "empty.extend", "new.extend", "empty.extend.extend"][path as usize]));
    o.label(format!("features-{}", if n >= 7 { "7+".to_string() } else { n.to_string() }));
    let mut tail: Vec<(String, StateFeature)> = tuples[a..].to_vec();
    let mut overwritten = false;
    if path >= 3 && a > 0 {
        if let Some((j, unit, init)) = overwrite {
            // re-declare one of the first `a` features with another unit / initial value
            let j = pick_idx(*j, a);
            let mut nf = feats[j].clone();
            nf.unit = *unit;
            nf.initial = *init;
            tail.push((key(nf.name), feature(&nf)));
            feats[j] = nf;
            overwritten = true;
            o.label("compatible-overwrite");
        }
    }
    // one extend call whose list names a feature twice: the per-query model is built this way
    // (model features followed by the query's overrides, search_app_ops::collect_features)
    let mut one_list = tuples.clone();
    if path == 2 && n > 0 {
        if let Some((j, unit, init)) = overwrite {
            let j = pick_idx(*j, n);
            let mut nf = feats[j].clone();
            nf.unit = *unit;
            nf.initial = *init;
            one_list.push((key(nf.name), feature(&nf)));
            feats[j] = nf;
            overwritten = true;
            o.label("compatible-overwrite");
            o.label("overwrite-within-one-extend-list");
        }
    }
    let built: Result<StateModel, String> = match path {
        0 => Ok(StateModel::new(tuples.clone())),
        1 => {
            let mut obj = serde_json::Map::new();
            for (name, f) in &tuples {
                obj.insert(name.clone(), serde_json::to_value(f).unwrap_or(json!(null)));
            }
            StateModel::try_from(&serde_json::Value::Object(obj)).map_err(|e| e.to_string())
        }
        2 => StateModel::empty().extend(one_list.clone()).map_err(|e| e.to_string()),
        3 => StateModel::new(tuples[..a].to_vec())
            .extend(tail.clone())
            .map_err(|e| e.to_string()),
        _ => StateModel::empty()
            .extend(tuples[..a].to_vec())
            .and_then(|m| m.extend(tail.clone()))
            .map_err(|e| e.to_string()),
    };
    let sm = match built {
        Ok(sm) => sm,
        Err(e) => {
            o.fail("C11/state/construction-error", json!({"error": e}));
            return;
        }
    };
    o.nontrivial = n >= 6;
    let names: Vec<String> = feats.iter().map(|f| key(f.name)).collect();
    // slots 0..n-1, none shared or skipped
    if sm.len() != n {
        o.fail("C11/state/len", json!({"len": sm.len(), "declared": n}));
        return;
    }
    let listed: Vec<String> = sm.iter().map(|(k, _)| k.clone()).collect();
    if listed != names {
        o.fail("C11/state/iteration-order", json!({"got": listed, "want": names}));
        return;
    }
    let idx: Vec<(usize, String)> = sm.indexed_iter().map(|(i, (k, _))| (i, k.clone())).collect();
    if idx != names.iter().cloned().enumerate().collect::<Vec<_>>() {
        o.fail("C11/state/indexed_iter", json!({"got": idx}));
        return;
    }
    let mut state = match sm.initial_state() {
        Ok(s) => s,
        Err(e) => {
            o.fail("C11/state/initial_state-error", json!({"error": e.to_string()}));
            return;
        }
    };
    if state.len() != n {
        o.fail(
            "C11/state/initial_state-length",
            json!({"got": state.len(), "features": n, "overwritten": overwritten}),
        );
        return;
    }
    for (i, f) in feats.iter().enumerate() {
        if state[i].0 != initial_slot(f) {
            o.fail(
                "C11/state/initial-value",
                json!({"slot": i, "got": state[i].0, "declared": initial_slot(f), "name": key(f.name)}),
            );
            return;
        }
    }
    // serialisation lists every feature exactly once with its slot value
    let ser = sm.serialize_state(&state);
    match ser.as_object() {
        None => o.fail("C11/state/serialize_state", json!({"got": ser})),
        Some(obj) => {
            let ok = obj.len() == n
                && names
                    .iter()
                    .enumerate()
                    .all(|(i, nm)| obj.get(nm).and_then(|v| v.as_f64()) == Some(state[i].0));
            if !ok {
                o.fail("C11/state/serialize_state", json!({"got": ser, "state": state.iter().map(|s| s.0).collect::<Vec<_>>()}));
                return;
            }
        }
    }
    // an incompatible overwrite (other kind) must be rejected
    if let Some(j) = incompatible {
        if n > 0 {
            let j = pick_idx(*j, n);
            let mut nf = feats[j].clone();
            nf.kind = if nf.kind == 0 { 1 } else { 0 };
            let r = sm.extend(vec![(key(nf.name), feature(&nf))]);
            o.label("incompatible-overwrite");
            if r.is_ok() {
                o.fail("C11/state/incompatible-overwrite-accepted", json!({"feature": key(nf.name)}));
                return;
            }
        }
    }
    if n == 0 {
        return;
    }
    for (step, op) in ops.iter().enumerate() {
        let before: Vec<f64> = state.iter().map(|s| s.0).collect();
        match op {
            StateOp::Set { f, value, unit } | StateOp::Add { f, value, unit } => {
                let is_add = matches!(op, StateOp::Add { .. });
                let i = pick_idx(*f, n);
                let fs = &feats[i];
                let name = key(fs.name);
                let u = *unit as usize % kind_units(fs.kind);
                let value = match fs.kind {
                    4 => value.trunc(),
                    5 => value.abs().trunc(),
                    6 => {
                        if *value > 0.0 {
                            1.0
                        } else {
                            0.0
                        }
                    }
                    _ => *value,
                };
                let r = match (fs.kind, is_add) {
                    (0, false) => sm.set_distance(&mut state, &name, &Distance::new(value), &DISTANCE_UNITS[u]),
                    (0, true) => sm.add_distance(&mut state, &name, &Distance::new(value), &DISTANCE_UNITS[u]),
                    (1, false) => sm.set_time(&mut state, &name, &Time::new(value), &TIME_UNITS[u]),
                    (1, true) => sm.add_time(&mut state, &name, &Time::new(value), &TIME_UNITS[u]),
                    (2, false) => sm.set_energy(&mut state, &name, &Energy::new(value), &ENERGY_UNITS[u]),
                    (2, true) => sm.add_energy(&mut state, &name, &Energy::new(value), &ENERGY_UNITS[u]),
                    (3, _) => sm.set_custom_f64(&mut state, &name, &value),
                    (4, _) => sm.set_custom_i64(&mut state, &name, &(value as i64)),
                    (5, _) => sm.set_custom_u64(&mut state, &name, &(value as u64)),
                    _ => sm.set_custom_bool(&mut state, &name, &(value > 0.0)),
                };
                let is_add = is_add && fs.kind <= 2;
                if let Err(e) = r {
                    o.fail(
                        "C11/state/update-error",
                        json!({"step": step, "feature": name, "error": e.to_string()}),
                    );
                    return;
                }
                // only its own slot may change
                for j in 0..n {
                    if j != i && state[j].0.to_bits() != before[j].to_bits() {
                        o.fail(
                            "C11/state/update-touched-other-slot",
                            json!({"step": step, "updated": name, "changed_slot": j, "before": before[j], "after": state[j].0}),
                        );
                        return;
                    }
                }
                // read back in the caller's unit
                let back = match get_by_kind(&sm, &state, fs, *unit) {
                    Ok(b) => b,
                    Err(e) => {
                        o.fail("C11/state/read-error", json!({"step": step, "feature": name, "error": e}));
                        return;
                    }
                };
                if !is_add {
                    if (back - value).abs() > 1e-3 * value.abs() + 1e-12 {
                        o.fail(
                            "C11/state/set-get-round-trip",
                            json!({"step": step, "feature": name, "set": value, "unit": u, "got": back}),
                        );
                        return;
                    }
                    if let Some(want) = to_feature_unit(fs, value, *unit) {
                        if (state[i].0 - want).abs() > 1e-3 * want.abs() + 1e-12 {
                            o.fail(
                                "C11/state/set-slot-value",
                                json!({"step": step, "feature": name, "slot": state[i].0, "expected": want}),
                            );
                            return;
                        }
                    }
                } else if let Some(dv) = to_feature_unit(fs, value, *unit).or_else(|| {
                    // energy given in another unit: no physical reference, but adding must be
                    // additive - the slot moves by what the same call adds to an empty slot
                    let mut zeroed = state.clone();
                    for (j, b) in before.iter().enumerate() {
                        zeroed[j] = StateVar(if j == i { 0.0 } else { *b });
                    }
                    sm.add_energy(&mut zeroed, &name, &Energy::new(value), &ENERGY_UNITS[u]).ok()?;
                    o.label("energy-add-in-other-unit");
                    Some(zeroed[i].0)
                }) {
                    let want = before[i] + dv;
                    let tol = 1e-3 * (before[i].abs() + dv.abs()) + 1e-12;
                    if (state[i].0 - want).abs() > tol {
                        o.fail(
                            "C11/state/add-slot-value",
                            json!({"step": step, "feature": name, "before": before[i], "added_in_feature_unit": dv, "slot": state[i].0, "expected": want}),
                        );
                        return;
                    }
                }
            }
            StateOp::WrongKind { f } => {
                let i = pick_idx(*f, n);
                let fs = &feats[i];
                let name = key(fs.name);
                // access with an accessor of another kind must fail and change nothing
                let r = if fs.kind == 0 {
                    sm.set_time(&mut state, &name, &Time::new(5.0), &TIME_UNITS[0]).is_err()
                } else {
                    sm.set_distance(&mut state, &name, &Distance::new(5.0), &DISTANCE_UNITS[0]).is_err()
                };
                let unchanged = state.iter().zip(before.iter()).all(|(a, b)| a.0.to_bits() == b.to_bits());
                if !r || !unchanged {
                    o.fail(
                        "C11/state/wrong-kind-access",
                        json!({"step": step, "feature": name, "rejected": r, "unchanged": unchanged}),
                    );
                    return;
                }
                // unknown names are rejected too
                if sm
                    .set_distance(&mut state, &"no_such_feature".to_string(), &Distance::new(1.0), &DISTANCE_UNITS[0])
                    .is_ok()
                {
                    o.fail("C11/state/unknown-name-accepted", json!({"step": step}));
                    return;
                }
            }
        }
    }
}

impl Prop for C11 {
    type Case = C11Case;
    fn id(&self) -> &'static str {
        "C11"
    }
    fn rule(&self) -> String {
        "generated histories: (a) ordered map: construction by empty / new(distinct keys, 0-9) / from_iter(with repeats) then up to 40 insert/clone operations over a pool of 12 string keys, the whole public API compared with an insertion-ordered Vec model after every step; (b) StateModel: 0-10 features of 7 kinds (distance, time, energy, custom f64/i64/u64/bool) in random units built through 5 construction paths (new, try_from json, empty.extend, new.extend, extend twice; with compatible and incompatible overwrites), then up to 12 set/add/wrong-kind accesses by name. non-trivial = map history that reaches >= 6 keys and overwrites a key afterwards, or a state model with >= 6 features".to_string()
    }
    fn cases(&self, tier: Tier) -> u32 {
        tier.pick(120_000, 4_000_000)
    }
    /// sizes around the widths an index could be narrowed to, and one beyond 16 bits
    fn enumerated(&self, tier: Tier) -> Box<dyn Iterator<Item = C11Case> + '_> {
        let mut sizes = vec![127usize, 128, 129, 255, 256, 257, 300, 1000];
        sizes.push(tier.pick(70_000, 200_000));
        Box::new(sizes.into_iter().flat_map(|n| (0u8..3).map(move |path| C11Case::Big { n, path, overwrite: vec![0, 40_000, 65_535] })))
    }
    fn assumptions(&self) -> Vec<String> {
        vec![
            "CompactOrderedHashMap::new is only called with distinct keys (its documented precondition; no caller passes duplicates)".into(),
            "cross-unit reads are compared at the 0.1 % the property family allows for one conversion; energy units are judged by round trip only".into(),
        ]
    }
    fn strategy(&self, _tier: Tier) -> BoxedStrategy<C11Case> {
        let entry = || (0u8..POOL as u8, -100i32..100);
        let distinct = proptest::collection::vec(-100i32..100, 0..10).prop_flat_map(|vals| {
            let n = vals.len();
            (Just(vals), Just((0..POOL as u8).collect::<Vec<u8>>()).prop_shuffle()).prop_map(
                move |(vals, keys)| {
                    MapInit::New(keys.into_iter().take(n).zip(vals).collect())
                },
            )
        });
        let init = prop_oneof![
            2 => Just(MapInit::Empty),
            3 => distinct,
            3 => proptest::collection::vec(entry(), 0..14).prop_map(MapInit::FromIter),
        ];
        let op = prop_oneof![
            9 => entry().prop_map(|(k, v)| MapOp::Insert(k, v)),
            1 => Just(MapOp::CloneMap),
        ];
        let map = (init, proptest::collection::vec(op, 0..40))
            .prop_map(|(init, ops)| C11Case::Map { init, ops });

        let feat_vals = proptest::collection::vec((0u8..7, 0u8..5, (0.0f64..50.0).prop_map(|v| (v * 4.0).round() / 4.0)), 0..=10);
        let sop = prop_oneof![
            4 => (any::<u16>(), (-1000.0f64..1000.0).prop_map(|v| (v * 8.0).round() / 8.0), 0u8..5).prop_map(|(f, value, unit)| StateOp::Set { f, value, unit }),
            4 => (any::<u16>(), (-1000.0f64..1000.0).prop_map(|v| (v * 8.0).round() / 8.0), 0u8..5).prop_map(|(f, value, unit)| StateOp::Add { f, value, unit }),
            1 => any::<u16>().prop_map(|f| StateOp::WrongKind { f }),
        ];
        let state = (
            0u8..5,
            any::<u16>(),
            feat_vals,
            Just((0..POOL as u8).collect::<Vec<u8>>()).prop_shuffle(),
            proptest::option::weighted(0.4, (any::<u16>(), 0u8..5, (0.0f64..50.0).prop_map(|v| (v * 4.0).round() / 4.0))),
            proptest::option::weighted(0.3, any::<u16>()),
            proptest::collection::vec(sop, 0..12),
        )
            .prop_map(|(path, split, fv, names, overwrite, incompatible, ops)| C11Case::State {
                path,
                split,
                features: fv
                    .into_iter()
                    .zip(names)
                    .map(|((kind, unit, initial), name)| FeatSpec {
                        name,
                        kind,
                        unit,
                        initial,
                    })
                    .collect(),
                overwrite,
                incompatible,
                ops,
            });
        let big = (prop_oneof![3 => 13usize..700, 1 => 700usize..3000], 0u8..3, proptest::collection::vec(any::<u16>(), 0..6))
            .prop_map(|(n, path, overwrite)| C11Case::Big { n, path, overwrite });
        prop_oneof![200 => map, 200 => state, 1 => big].boxed()
    }
    fn check(&self, case: &C11Case) -> Outcome {
        let mut o = Outcome::new();
        match case {
            C11Case::Map { init, ops } => {
                o.label("map-history");
                check_map(init, ops, &mut o);
            }
            C11Case::State {
                path,
                split,
                features,
                overwrite,
                incompatible,
                ops,
            } => {
                o.label("state-model");
                check_state(*path, *split, features, overwrite, incompatible, ops, &mut o);
            }
            C11Case::Big { n, path, overwrite } => {
                o.label("many-entries");
                check_big(*n, *path, overwrite, &mut o);
            }
        }
        o
    }
}

/// key i of a large map: distinct, and neither sorted nor grouped by length
fn big_key(i: usize) -> String {
    format!("k{}_{}", (i * 7919) % 10_007, i)
}

fn check_big(n: usize, path: u8, overwrite: &[u16], o: &mut Outcome) {
    let entries: Vec<(String, i32)> = (0..n).map(|i| (big_key(i), i as i32 * 3 - 7)).collect();
    let mut map: CompactOrderedHashMap<String, i32> = match path % 3 {
        0 => CompactOrderedHashMap::new(entries.clone()),
        1 => entries.clone().into_iter().collect(),
        _ => {
            let mut m = CompactOrderedHashMap::empty();
            for (k, v) in entries.clone() {
                if m.insert(k, v).is_some() {
                    o.fail("C11/big/insert-of-a-new-key-returned-a-previous-value", json!({"n": n}));
                    return;
                }
            }
            m
        }
    };
    o.label(format!("many-entries-path-{}", path % 3));
    o.label(if n > 65_536 { "entries>65536" } else if n > 256 { "entries>256" } else { "entries<=256" });
    o.nontrivial = n > 256;
    let mut model = entries;
    for w in overwrite {
        let i = pick_idx(*w, n);
        model[i].1 = -(i as i32) - 1;
        let prev = map.insert(model[i].0.clone(), model[i].1);
        if prev != Some(i as i32 * 3 - 7) && prev != Some(-(i as i32) - 1) {
            o.fail("C11/big/overwrite-did-not-return-the-previous-value", json!({"n": n, "position": i, "got": prev}));
            return;
        }
    }
    if map.len() != n {
        o.fail("C11/big/len", json!({"n": n, "len": map.len(), "path": path % 3}));
        return;
    }
    // every key owns its own position
    let mut seen = vec![false; n];
    for (i, (k, v)) in model.iter().enumerate() {
        let gi = map.get_index(k);
        if gi != Some(i) || map.get(k) != Some(v) {
            o.fail("C11/big/get_index", json!({"n": n, "path": path % 3, "key_position": i, "get_index": gi, "get": map.get(k), "want_value": v}));
            return;
        }
        seen[i] = true;
    }
    // positional access and the iterators walk the entries (they scan per step: bounded sizes)
    if n <= 3000 {
        let probe: Vec<usize> = if n <= 700 { (0..n).collect() } else { vec![0, 1, 255, 256, 257, n / 2, n - 1] };
        for i in probe {
            let got = map.get_pair(i).map(|(k, v)| (k.clone(), *v));
            if got.as_ref() != model.get(i) {
                o.fail("C11/big/get_pair", json!({"n": n, "path": path % 3, "index": i, "got": got, "want": model.get(i)}));
                return;
            }
        }
        if map.get_pair(n).is_some() {
            o.fail("C11/big/get_pair-beyond-the-end", json!({"n": n}));
            return;
        }
        let it: Vec<(String, i32)> = map.iter().map(|(k, v)| (k.clone(), *v)).collect();
        let keys: Vec<String> = map.keys().cloned().collect();
        let iit: Vec<(usize, String)> = map.indexed_iter().map(|(i, (k, _))| (i, k.clone())).collect();
        let tv: Vec<String> = map.to_vec().into_iter().map(|(k, _)| k).collect();
        let want_keys: Vec<String> = model.iter().map(|(k, _)| k.clone()).collect();
        if it != model || keys != want_keys || tv != want_keys || iit != want_keys.iter().cloned().enumerate().collect::<Vec<_>>() {
            let first_bad = it.iter().zip(model.iter()).position(|(a, b)| a != b);
            o.fail(
                "C11/big/iteration-order",
                json!({"n": n, "path": path % 3, "iter_len": it.len(), "keys_len": keys.len(), "indexed_iter_len": iit.len(), "to_vec_len": tv.len(), "first_position_where_iter_differs": first_bad}),
            );
            return;
        }
    }
    // a state model with that many features: one slot each, initial values in their slots, a
    // write through one name changes that slot only
    if n <= 1500 {
        use routee_compass_core::model::unit::DistanceUnit;
        let feats: Vec<(String, StateFeature)> = (0..n)
            .map(|i| (big_key(i), StateFeature::Distance { distance_unit: DistanceUnit::Meters, initial: Distance::new(i as f64 + 0.5) }))
            .collect();
        let sm = match path % 3 {
            0 => StateModel::new(feats),
            1 => match StateModel::empty().extend(feats) {
                Ok(m) => m,
                Err(e) => {
                    o.fail("C11/big/state/extend-error", json!({"n": n, "error": e.to_string()}));
                    return;
                }
            },
            _ => {
                let (a, b) = feats.split_at(n / 2);
                match StateModel::new(a.to_vec()).extend(b.to_vec()) {
                    Ok(m) => m,
                    Err(e) => {
                        o.fail("C11/big/state/extend-error", json!({"n": n, "error": e.to_string()}));
                        return;
                    }
                }
            }
        };
        let init = match sm.initial_state() {
            Ok(s) => s,
            Err(e) => {
                o.fail("C11/big/state/initial-state-error", json!({"n": n, "error": e.to_string()}));
                return;
            }
        };
        if sm.len() != n || init.len() != n {
            o.fail("C11/big/state/slot-count", json!({"features": n, "len": sm.len(), "initial_state_len": init.len()}));
            return;
        }
        for i in [0, 1, 5, 127, 128, 255, 256, 257, n / 2, n - 1] {
            if i >= n {
                continue;
            }
            let name = big_key(i);
            let got = sm.get_distance(&init, &name, &DistanceUnit::Meters).map(|d| d.as_f64()).ok();
            if got != Some(i as f64 + 0.5) {
                o.fail("C11/big/state/initial-value-not-in-the-feature's-slot", json!({"n": n, "feature_position": i, "got": got}));
                return;
            }
            let mut st = init.clone();
            if let Err(e) = sm.set_distance(&mut st, &name, &Distance::new(-42.0), &DistanceUnit::Meters) {
                o.fail("C11/big/state/set-error", json!({"n": n, "feature_position": i, "error": e.to_string()}));
                return;
            }
            let changed: Vec<usize> = (0..n).filter(|j| st[*j] != init[*j]).collect();
            if changed != vec![i] {
                o.fail("C11/big/state/write-through-one-name-changed-other-slots", json!({"n": n, "feature_position": i, "changed_slots": changed.iter().take(5).collect::<Vec<_>>()}));
                return;
            }
        }
    }
}
