//! C18 — strongly connected components are exactly the mutual-reachability classes
use crate::engine::{pick_idx, Outcome, Prop, Tier};
use crate::gen::NetCase;
use crate::refmodel::RefGraph;
use proptest::prelude::*;
use routee_compass_core::algorithm::component::scc;
use serde::{Deserialize, Serialize};
use serde_json::json;
use std::collections::HashSet;

#[derive(Clone, Debug, Serialize, Deserialize)]
pub struct C18Case {
    pub n: usize,
    pub edges: Vec<(usize, usize)>,
}

pub struct C18;

/// iterative Tarjan; returns component id per vertex
fn ref_scc(g: &RefGraph) -> Vec<usize> {
    let n = g.n;
    let mut index = vec![usize::MAX; n];
    let mut low = vec![0usize; n];
    let mut on_stack = vec![false; n];
    let mut comp = vec![usize::MAX; n];
    let mut stack: Vec<usize> = vec![];
    let mut next_index = 0usize;
    let mut next_comp = 0usize;
    for root in 0..n {
        if index[root] != usize::MAX {
            continue;
        }
        // explicit call stack: (vertex, next out-edge position)
        let mut call: Vec<(usize, usize)> = vec![(root, 0)];
        index[root] = next_index;
        low[root] = next_index;
        next_index += 1;
        stack.push(root);
        on_stack[root] = true;
        while let Some(&mut (v, ref mut pos)) = call.last_mut() {
            if *pos < g.out[v].len() {
                let e = g.out[v][*pos];
                *pos += 1;
                let w = g.edges[e].dst;
                if index[w] == usize::MAX {
                    index[w] = next_index;
                    low[w] = next_index;
                    next_index += 1;
                    stack.push(w);
                    on_stack[w] = true;
                    call.push((w, 0));
                } else if on_stack[w] {
                    low[v] = low[v].min(index[w]);
                }
            } else {
                call.pop();
                if let Some(&(parent, _)) = call.last() {
                    low[parent] = low[parent].min(low[v]);
                }
                if low[v] == index[v] {
                    loop {
                        let w = stack.pop().unwrap();
                        on_stack[w] = false;
                        comp[w] = next_comp;
                        if w == v {
                            break;
                        }
                    }
                    next_comp += 1;
                }
            }
        }
    }
    comp
}

fn bits_case(n: usize, bits: u32, self_loops: bool) -> C18Case {
    let mut edges = vec![];
    let mut b = 0;
    for i in 0..n {
        for j in 0..n {
            if i == j && !self_loops {
                continue;
            }
            if bits >> b & 1 == 1 {
                edges.push((i, j));
            }
            b += 1;
        }
    }
    C18Case { n, edges }
}

impl Prop for C18 {
    type Case = C18Case;
    fn id(&self) -> &'static str {
        "C18"
    }
    fn rule(&self) -> String {
        "enumerated: every digraph incl. self loops on 1..4 vertices (2+16+512+65536 graphs; thorough adds all 2^20 loop-free digraphs on 5 vertices); generated: random multigraphs n<=60 (parallel edges, self loops, isolated vertices), cycles-of-cycles, and long chains with back edges (quick 9000, thorough 50000 vertices). non-trivial = at least 2 components of size >= 2, or a component of size >= 3 whose edges are not all bidirected (asymmetric cycle)".to_string()
    }
    fn cases(&self, tier: Tier) -> u32 {
        tier.pick(20_000, 400_000)
    }
    fn exhaustive_note(&self, tier: Tier) -> Option<String> {
        Some(tier.pick(
            "all 66 066 directed graphs (self loops allowed) on 1, 2, 3 and 4 vertices".to_string(),
            "all 66 066 directed graphs (self loops allowed) on 1..4 vertices and all 1 048 576 loop-free directed graphs on 5 vertices".to_string(),
        ))
    }
    fn enumerated(&self, tier: Tier) -> Box<dyn Iterator<Item = C18Case> + '_> {
        let small = (1usize..=4).flat_map(|n| {
            let nbits = (n * n) as u32;
            (0u32..(1u32 << nbits)).map(move |bits| bits_case(n, bits, true))
        });
        if tier == Tier::Thorough {
            Box::new(small.chain((0u32..(1 << 20)).map(|bits| bits_case(5, bits, false))))
        } else {
            Box::new(small)
        }
    }
    fn strategy(&self, tier: Tier) -> BoxedStrategy<C18Case> {
        let random = (1usize..=60)
            .prop_flat_map(|n| {
                (
                    Just(n),
                    proptest::collection::vec((any::<u16>(), any::<u16>()), 0..=4 * n),
                )
            })
            .prop_map(|(n, raw)| C18Case {
                n,
                edges: raw
                    .into_iter()
                    .map(|(a, b)| (pick_idx(a, n), pick_idx(b, n)))
                    .collect(),
            });
        // rings of rings: k rings of size s, ring i connected to ring i+1 one-way, optional closing edge
        let rings = (1usize..6, 1usize..7, any::<bool>(), proptest::collection::vec((any::<u16>(), any::<u16>()), 0..6))
            .prop_map(|(k, s, close, extra)| {
                let n = k * s;
                let mut edges = vec![];
                for r in 0..k {
                    for i in 0..s {
                        if s > 1 {
                            edges.push((r * s + i, r * s + (i + 1) % s));
                        }
                    }
                    if r + 1 < k {
                        edges.push((r * s, (r + 1) * s));
                    }
                }
                if close && k > 1 {
                    edges.push(((k - 1) * s, 0));
                }
                for (a, b) in extra {
                    // forward-only extras keep the ring structure interesting
                    let (x, y) = (pick_idx(a, n), pick_idx(b, n));
                    edges.push((x.min(y), x.max(y)));
                }
                C18Case { n, edges }
            });
        let max_chain = tier.pick(9_000usize, 50_000usize);
        let chain = (2usize..=max_chain, proptest::collection::vec((any::<u16>(), any::<u16>()), 0..4))
            .prop_map(|(n, back)| {
                let mut edges: Vec<(usize, usize)> = (0..n - 1).map(|i| (i, i + 1)).collect();
                for (a, b) in back {
                    let (x, y) = (pick_idx(a, n), pick_idx(b, n));
                    edges.push((x.max(y), x.min(y)));
                }
                C18Case { n, edges }
            });
        prop_oneof![60 => random, 30 => rings, 1 => chain].boxed()
    }
    fn assumptions(&self) -> Vec<String> {
        vec!["the reference is an iterative Tarjan implementation, cross-checked against n breadth-first mutual-reachability searches when n <= 64".into()]
    }
    fn check(&self, case: &C18Case) -> Outcome {
        let mut o = Outcome::new();
        let net = NetCase {
            shape: "c18".into(),
            vertices: vec![(0.0, 0.0); case.n],
            edges: case.edges.iter().map(|(a, b)| (*a, *b, 1.0)).collect(),
            metric: false,
        };
        let g = net.ref_graph();
        let comp = ref_scc(&g);
        let ncomp = comp.iter().cloned().max().map(|m| m + 1).unwrap_or(0);
        let mut sizes = vec![0usize; ncomp];
        for c in &comp {
            sizes[*c] += 1;
        }
        if case.n <= 64 {
            // cross-check the reference itself by mutual reachability
            let reach: Vec<Vec<bool>> = (0..case.n).map(|v| g.reach(v, &|_| true)).collect();
            for u in 0..case.n {
                for v in 0..case.n {
                    let mutual = reach[u][v] && reach[v][u];
                    if mutual != (comp[u] == comp[v]) {
                        o.fail("C18/harness/reference-disagreement", json!({"u": u, "v": v}));
                        return o;
                    }
                }
            }
        }
        let big = sizes.iter().filter(|s| **s >= 2).count();
        let edge_set: HashSet<(usize, usize)> = case.edges.iter().cloned().collect();
        let asym = case.edges.iter().any(|(a, b)| {
            a != b && comp[*a] == comp[*b] && sizes[comp[*a]] >= 3 && !edge_set.contains(&(*b, *a))
        });
        o.nontrivial = big >= 2 || asym;
        o.label(format!("n-{}", if case.n <= 5 { case.n.to_string() } else if case.n <= 60 { "6..60".into() } else { ">60".into() }));
        o.label_if(big >= 2, ">=2-nontrivial-components");
        o.label_if(asym, "asymmetric-cycle");
        o.label_if(case.edges.iter().any(|(a, b)| a == b), "self-loop");

        // one generated graph in three (and a sample of the enumerated ones) is loaded from
        // edge and vertex files through the application's graph builder, as an application's
        // network is; the others are assembled in memory
        let from_files = case.n <= 200 && (case.n + 2 * case.edges.len()) % 3 == 0 && (case.n >= 5 || case.edges.len() % 5 == 1);
        o.label_if(from_files, "graph-loaded-from-files");
        let graph = if from_files {
            let dir = crate::engine::CaseDir::new();
            let (ep, vp) = (dir.file("edges.csv"), dir.file("vertices.csv"));
            if crate::appbuild::write_text(&ep, &crate::appbuild::edges_csv(&net), false).is_err() || crate::appbuild::write_text(&vp, &crate::appbuild::vertices_csv(&net), false).is_err() {
                return o;
            }
            let cfg = json!({"edge_list_input_file": ep.to_string_lossy().to_string(), "vertex_list_input_file": vp.to_string_lossy().to_string(), "verbose": false});
            match routee_compass::app::compass::config::graph_builder::DefaultGraphBuilder::build(&cfg) {
                Ok(g) => g,
                Err(e) => {
                    o.fail("C18/graph-files-rejected", json!({"error": e.to_string()}));
                    return o;
                }
            }
        } else {
            net.graph()
        };
        let got = match scc::all_strongly_connected_componenets(&graph) {
            Ok(g) => g,
            Err(e) => {
                o.fail("C18/all/error", json!({"error": e.to_string()}));
                return o;
            }
        };
        // partition: every vertex exactly once
        let mut seen = vec![0usize; case.n];
        for c in &got {
            for v in c {
                if v.0 >= case.n {
                    o.fail("C18/all/vertex-out-of-range", json!({"v": v.0}));
                    return o;
                }
                seen[v.0] += 1;
            }
        }
        if seen.iter().any(|c| *c != 1) {
            o.fail(
                "C18/all/not-a-partition",
                json!({"occurrences": seen, "components": got.iter().map(|c| c.iter().map(|v| v.0).collect::<Vec<_>>()).collect::<Vec<_>>()}),
            );
            return o;
        }
        if got.iter().any(|c| c.is_empty()) {
            o.fail("C18/all/empty-component", json!({}));
        }
        for c in &got {
            let id = comp[c[0].0];
            if c.iter().any(|v| comp[v.0] != id) || c.len() != sizes[id] {
                o.fail(
                    "C18/all/block-is-not-a-mutual-reachability-class",
                    json!({"block": c.iter().map(|v| v.0).collect::<Vec<_>>(), "reference_component_of_first": id, "reference_size": sizes[id]}),
                );
                break;
            }
        }
        match scc::largest_strongly_connected_component(&graph) {
            Err(e) => o.fail("C18/largest/error", json!({"error": e.to_string()})),
            Ok(l) => {
                let max = sizes.iter().cloned().max().unwrap_or(0);
                let ok = l.len() == max
                    && (l.is_empty() || {
                        let id = comp[l[0].0];
                        l.iter().all(|v| comp[v.0] == id)
                            && l.iter().map(|v| v.0).collect::<HashSet<_>>().len() == l.len()
                    });
                if !ok {
                    o.fail(
                        "C18/largest/not-a-maximum-size-component",
                        json!({"largest": l.iter().map(|v| v.0).collect::<Vec<_>>(), "max_size": max}),
                    );
                }
            }
        }
        o
    }
}
