//! C05 — 'no path' is reported exactly when the destination is unreachable
use crate::engine::{close, Outcome, Prop, Tier};
use crate::gen::*;
use crate::refmodel::*;
use crate::searchrun::*;
use crate::simodel::*;
use proptest::prelude::*;
use routee_compass_core::algorithm::search::edge_traversal::EdgeTraversal;
use routee_compass_core::model::network::EdgeId;
use routee_compass_core::model::unit::as_f64::AsF64;
use serde_json::json;

pub struct C05;

impl Prop for C05 {
    type Case = SearchCase;
    fn id(&self) -> &'static str {
        "C05"
    }
    fn rule(&self) -> String {
        "generated: networks biased to disconnected and one-way shapes (two components, chains, sparse random, stars with missing spokes) x edge-local allow lists (harness frontier model, or the application's road-class model built from a class file with class ids over the whole u8 range) x Dijkstra / A* with any weight factor (incl. > 1) x forward/reverse x vertex/edge orientation x with/without destination; history-independent non-negative costs. Oracle: depth-first reachability over allowed edges on the reference graph; the destination-less tree must have exactly the reachable vertices as keys, each labelled (sum of costs up the parent chain) with the label-correcting reference optimum over the implementation's own edge costs. non-trivial = unreachable destination although the origin can reach other vertices, or a reachable destination while some edge is forbidden, or a tree with >= 3 vertices in a graph with an unreachable vertex".to_string()
    }
    fn cases(&self, tier: Tier) -> u32 {
        tier.pick(80_000, 3_000_000)
    }
    fn assumptions(&self) -> Vec<String> {
        vec![
            "for edge-oriented queries the user-chosen origin and destination edges are not themselves subject to the edge restriction".into(),
            "the error is matched on the SearchError enum variant, not on its text".into(),
        ]
    }
    fn strategy(&self, tier: Tier) -> BoxedStrategy<SearchCase> {
        let max_n = tier.pick(12, 40);
        // one network in 250 has up to 400 (thorough 1500) vertices
        let big_n = tier.pick(400, 1500);
        prop_oneof![498 => net_any(max_n).boxed(), 1 => net_any(big_n).boxed(), 1 => net_long(2 * big_n).boxed()]
            .prop_flat_map(move |net| {
                let m = net.m();
                (
                    Just(net),
                    trav_strategy(m, true),
                    state_strategy(),
                    allowed_strategy(m),
                    base_alg(),
                    (any::<bool>(), any::<bool>(), any::<u16>(), any::<u16>(), proptest::bool::weighted(0.6)),
                    proptest::option::weighted(0.2, prop_oneof![Just(0.0f64), Just(1.0), Just(3.0)]),
                )
            })
            .prop_flat_map(|(net, trav, state, allowed, alg, misc, qwf)| {
                let has_time = matches!(trav, TravSpec::Speed { .. });
                let m = net.m();
                (Just((net, trav, state, allowed, alg, misc, qwf)), cost_nonneg(m, has_time))
            })
            .prop_map(|((net, trav, state, allowed, alg, misc, qwf), cost)| {
                let (edge_o, reverse, a, b, with_dest) = misc;
                let n = net.n();
                let m = net.m();
                let edge_oriented = edge_o && m >= 2;
                let reverse = reverse && !edge_oriented;
                let (o, d) = if edge_oriented { od_pair(m, a, b) } else { od_pair(n, a, b) };
                SearchCase {
                    spec: SiSpec {
                        net,
                        trav,
                        access: None,
                        cost,
                        state,
                        allowed,
                        restricted_turns: vec![],
                    },
                    alg,
                    edge_oriented,
                    reverse,
                    o,
                    d: if with_dest { Some(d) } else { None },
                    query_wf: qwf,
                    query_k: None,
                }
            })
            .boxed()
    }
    fn check(&self, case: &SearchCase) -> Outcome {
        let mut o = Outcome::new();
        let g0 = case.spec.net.ref_graph();
        let g = if case.reverse { g0.reversed() } else { g0.clone() };
        let alg = case.alg.name().replace('*', "-star");
        let orient = if case.edge_oriented { "edge" } else { "vertex" };
        o.label(format!("alg-{}", alg));
        o.label(format!("orientation-{}", orient));
        o.label(format!("shape-{}", case.spec.net.shape));
        o.label_if(case.reverse, "reverse");
        o.label_if(case.d.is_none(), "no-destination");
        let built = match build_si(&case.spec, BuildOpts::default()) {
            Ok(b) => b,
            Err(_) => return o,
        };
        // with an edge restriction, every other case expresses it through the application's
        // road-class model (class file + per-query class list through the frontier builder, class
        // ids from the whole u8 range) instead of the harness frontier: same allowed set
        let flavour = (case.o + case.spec.net.m()) % 4;
        let real_frontier = case.spec.allowed.is_some() && flavour % 2 == 0;
        // ... and half of those through the vehicle-restriction model instead: a height limit
        // on every forbidden edge, a tall vehicle in the judged query, and a low vehicle (for which
        // every edge is open) answered first by the same service
        let by_vehicle = real_frontier && flavour == 2;
        o.label_if(real_frontier && !by_vehicle, "restriction-through-the-road-class-model");
        o.label_if(by_vehicle, "restriction-through-the-vehicle-restriction-model");
        let swapped;
        let si = if by_vehicle {
            let m = case.spec.net.m();
            let dir = crate::engine::CaseDir::new();
            let mut text = String::from("edge_id,restriction_name,restriction_value,restriction_unit\n");
            for e in 0..m {
                if !case.spec.edge_allowed(e) {
                    text.push_str(&format!("{},maximum_height,{},{}\n", e, [3.0, 9.5, 118.0][e % 3], ["meters", "feet", "inches"][e % 3]));
                }
            }
            let rp = dir.file("restrictions.csv");
            if crate::appbuild::write_text(&rp, &text, false).is_err() {
                return o;
            }
            thread_local! {
                static BUILDER2: routee_compass::app::compass::config::compass_app_builder::CompassAppBuilder =
                    routee_compass::app::compass::config::compass_app_builder::CompassAppBuilder::default();
            }
            let cfg = json!({"type": "vehicle_restriction", "vehicle_restriction_input_file": rp.to_string_lossy().to_string()});
            let vehicle = |h: f64| json!({"vehicle_parameters": {"height": [h, "meters"], "width": [2.0, "meters"], "total_length": [10.0, "meters"],
                "trailer_length": [5.0, "meters"], "total_weight": [10.0, "tons"], "number_of_axles": 2}});
            let with_fm = |fm: std::sync::Arc<dyn routee_compass_core::model::frontier::frontier_model::FrontierModel>| routee_compass_core::algorithm::search::search_instance::SearchInstance {
                directed_graph: built.si.directed_graph.clone(),
                state_model: built.si.state_model.clone(),
                traversal_model: built.si.traversal_model.clone(),
                access_model: built.si.access_model.clone(),
                cost_model: built.si.cost_model.clone(),
                frontier_model: fm,
                termination_model: built.si.termination_model.clone(),
            };
            let svc = match BUILDER2.with(|b| b.build_frontier_model_service(&cfg).map_err(|e| e.to_string())) {
                Ok(s) => s,
                Err(e) => {
                    o.fail("C05/vehicle-restriction-model/valid-configuration-rejected", json!({"error": e}));
                    return o;
                }
            };
            match (svc.build(&vehicle(2.0), built.si.state_model.clone()), svc.build(&vehicle(4.0), built.si.state_model.clone())) {
                (Ok(low), Ok(tall)) => {
                    // the low vehicle first: a destination-less search touches every reachable edge
                    let mut pre = case.clone();
                    pre.d = None;
                    let _ = run_search(&pre, &with_fm(low));
                    swapped = with_fm(tall);
                    &swapped
                }
                (a, b) => {
                    o.fail("C05/vehicle-restriction-model/valid-query-rejected", json!({"errors": [a.err().map(|e| e.to_string()), b.err().map(|e| e.to_string())]}));
                    return o;
                }
            }
        } else if real_frontier {
            const PERMITTED: [u8; 4] = [1, 64, 130, 255];
            const OTHER: [u8; 4] = [0, 65, 2, 200];
            let m = case.spec.net.m();
            let dir = crate::engine::CaseDir::new();
            let text: String = (0..m)
                .map(|e| format!("{}\n", if case.spec.edge_allowed(e) { PERMITTED[e % 4] } else { OTHER[e % 4] }))
                .collect();
            let cp = dir.file("classes.txt");
            if crate::appbuild::write_text(&cp, &text, false).is_err() {
                return o;
            }
            thread_local! {
                static BUILDER: routee_compass::app::compass::config::compass_app_builder::CompassAppBuilder =
                    routee_compass::app::compass::config::compass_app_builder::CompassAppBuilder::default();
            }
            let cfg = json!({"type": "road_class", "road_class_input_file": cp.to_string_lossy().to_string()});
            let model = BUILDER.with(|b| {
                b.build_frontier_model_service(&cfg)
                    .map_err(|e| e.to_string())
                    .and_then(|svc| svc.build(&json!({"road_classes": PERMITTED}), built.si.state_model.clone()).map_err(|e| e.to_string()))
            });
            match model {
                Ok(fm) => {
                    swapped = routee_compass_core::algorithm::search::search_instance::SearchInstance {
                        directed_graph: built.si.directed_graph.clone(),
                        state_model: built.si.state_model.clone(),
                        traversal_model: built.si.traversal_model.clone(),
                        access_model: built.si.access_model.clone(),
                        cost_model: built.si.cost_model.clone(),
                        frontier_model: fm,
                        termination_model: built.si.termination_model.clone(),
                    };
                    &swapped
                }
                Err(e) => {
                    o.fail("C05/road-class-model/valid-configuration-rejected", json!({"error": e}));
                    return o;
                }
            }
        } else {
            &built.si
        };
        let allowed = |e: usize| case.spec.edge_allowed(e);
        let (s_v, t_v) = case.vertex_endpoints();
        let reach = g.reach(s_v, &allowed);
        let n_reach = reach.iter().filter(|r| **r).count();
        let some_forbidden = (0..g.m()).any(|e| !allowed(e));
        let r = match run_search(case, si) {
            RunOutcome::Done(r) => r,
            _ => return o,
        };
        let sig = |what: &str| format!("C05/{}/{}/{}", alg, orient, what);
        match t_v {
            Some(t) => {
                let reachable = reach[t]; // includes the adjacent-edges case s == t
                o.label(if reachable { "destination-reachable" } else { "destination-unreachable" });
                let ctx = json!({"search_origin_vertex": s_v, "search_destination_vertex": t, "reachable_in_reference": reachable,
                    "allowed": case.spec.allowed});
                match (&r, reachable) {
                    (Ok(res), true) => {
                        let ok = res.routes.len() == 1 && !res.routes[0].is_empty();
                        if !ok {
                            o.fail(sig("reachable-but-empty-or-missing-route"), ctx);
                        }
                        o.nontrivial = some_forbidden && s_v != t;
                    }
                    (Ok(res), false) => {
                        o.fail(
                            sig("unreachable-destination-answered-with-success"),
                            json!({"ctx": ctx, "routes": res.routes.iter().map(|r| route_ids(r)).collect::<Vec<_>>()}),
                        );
                    }
                    (Err(ErrKind::NoPath), false) => {
                        o.nontrivial = n_reach > 1;
                    }
                    (Err(ErrKind::NoPath), true) => {
                        o.fail(sig("no-path-reported-for-reachable-destination"), ctx);
                    }
                    (Err(e), _) => {
                        o.fail(
                            sig("other-error-instead-of-route-or-no-path"),
                            json!({"ctx": ctx, "error": format!("{:?}", e)}),
                        );
                    }
                }
            }
            None => {
                let res = match r {
                    Ok(res) => res,
                    Err(e) => {
                        o.fail(sig("destination-less-search-failed"), json!({"error": format!("{:?}", e)}));
                        return o;
                    }
                };
                let tree = match res.trees.first() {
                    Some(t) => t,
                    None => {
                        o.fail(sig("no-tree"), json!({}));
                        return o;
                    }
                };
                let marker = if case.edge_oriented { Some(case.o) } else { None };
                let keys: std::collections::HashSet<usize> = tree
                    .iter()
                    .filter(|b| !(b.vertex == s_v && Some(b.et.edge_id.0) == marker))
                    .map(|b| b.vertex)
                    .collect();
                let want: std::collections::HashSet<usize> =
                    (0..g.n).filter(|v| reach[*v] && *v != s_v).collect();
                if keys != want {
                    let mut missing: Vec<usize> = want.difference(&keys).cloned().collect();
                    let mut extra: Vec<usize> = keys.difference(&want).cloned().collect();
                    missing.sort();
                    extra.sort();
                    o.fail(
                        sig("tree-is-not-the-reachable-set"),
                        json!({"search_origin_vertex": s_v, "missing": missing, "unexpected": extra, "allowed": case.spec.allowed}),
                    );
                    return o;
                }
                // least-cost labels
                let init = match si.state_model.initial_state() {
                    Ok(s) => s,
                    Err(_) => return o,
                };
                let mut cost = vec![f64::INFINITY; g.m()];
                for e in 0..g.m() {
                    let et = if case.reverse {
                        EdgeTraversal::reverse_traversal(EdgeId(e), None, &init, si)
                    } else {
                        EdgeTraversal::forward_traversal(EdgeId(e), None, &init, si)
                    };
                    if let Ok(et) = et {
                        cost[e] = et.total_cost().as_f64();
                    }
                }
                let dist = ref_sssp(&g, &cost, &allowed, s_v);
                let map = res.tree_map(0);
                for v in want.iter() {
                    let mut cur = *v;
                    let mut sum = 0.0;
                    let mut steps = 0;
                    while cur != s_v && steps <= g.n {
                        match map.get(&cur) {
                            Some(b) => {
                                sum += b.et.total_cost().as_f64();
                                cur = b.parent;
                            }
                            None => break,
                        }
                        steps += 1;
                    }
                    if cur != s_v {
                        continue; // C01's business
                    }
                    if !close(sum, dist[*v], 1e-9, 1e-9) {
                        o.fail(
                            sig("tree-label-is-not-the-least-cost"),
                            json!({"vertex": v, "cost_up_the_parent_chain": sum, "reference_least_cost": dist[*v]}),
                        );
                        return o;
                    }
                }
                o.nontrivial = want.len() >= 2 && n_reach < g.n;
            }
        }
        o
    }
}
