//! C01 — routes are contiguous origin-to-destination walks; trees are rooted trees
use crate::engine::{Outcome, Prop, Tier};
use crate::gen::*;
use crate::searchrun::*;
use crate::simodel::*;
use proptest::prelude::*;
use serde_json::json;

pub struct C01;

pub fn search_case_strategy(max_n: usize, allow_edge_reverse: bool) -> BoxedStrategy<SearchCase> {
    search_case_strategy_from(net_any(max_n).boxed(), allow_edge_reverse)
}

pub fn search_case_strategy_from(nets: BoxedStrategy<NetCase>, allow_edge_reverse: bool) -> BoxedStrategy<SearchCase> {
    nets
        .prop_flat_map(move |net| {
            let m = net.m();
            (
                Just(net),
                trav_strategy(m, true),
                proptest::option::weighted(0.4, turn_delay_strategy(m)),
                state_strategy(),
                allowed_strategy(m),
                prop_oneof![3 => Just(vec![]), 1 => restricted_turns_strategy(m)],
                any_alg(),
                (any::<bool>(), any::<bool>(), any::<u16>(), any::<u16>(), proptest::bool::weighted(0.85)),
                (proptest::option::weighted(0.2, prop_oneof![Just(0.0f64), Just(1.0), Just(3.0)]), proptest::option::weighted(0.2, 1usize..5)),
            )
        })
        .prop_flat_map(|(net, trav, access, state, allowed, restricted_turns, alg, misc, q)| {
            let has_time = matches!(trav, TravSpec::Speed { .. });
            let m = net.m();
            (
                Just((net, trav, access, state, allowed, restricted_turns, alg, misc, q)),
                cost_nonneg(m, has_time),
            )
        })
        .prop_map(move |((net, trav, access, state, allowed, restricted_turns, alg, misc, q), cost)| {
            let (edge_o, reverse, a, b, with_dest) = misc;
            let has_time = matches!(trav, TravSpec::Speed { .. });
            let n = net.n();
            let m = net.m();
            let edge_oriented = edge_o && m >= 2;
            // reverse direction only applies to the plain algorithms on vertices (the k-shortest
            // path algorithms run both directions themselves; no caller runs edge-oriented
            // searches in reverse and its meaning is not defined)
            let reverse = reverse && !alg.is_ksp() && (!edge_oriented || allow_edge_reverse);
            let (o, d) = if edge_oriented {
                od_pair(m, a, b)
            } else {
                od_pair(n, a, b)
            };
            let d = if with_dest || alg.is_ksp() { Some(d) } else { None };
            let access = if has_time { access } else { None };
            SearchCase {
                spec: SiSpec {
                    net,
                    trav,
                    access,
                    cost,
                    state,
                    allowed,
                    restricted_turns,
                },
                alg,
                edge_oriented,
                reverse,
                o,
                d,
                query_wf: q.0,
                query_k: q.1,
            }
        })
        .boxed()
}

fn strip(reason: &str) -> &str {
    reason.split(':').next().unwrap_or(reason)
}

impl Prop for C01 {
    type Case = SearchCase;
    fn id(&self) -> &'static str {
        "C01"
    }
    fn rule(&self) -> String {
        "generated: network (7 shapes incl. parallel edges, self loops, dead ends, two components; free or metric lengths) x traversal (distance | speed table, all unit combinations) x optional turn delays x non-negative cost blend x optional edge-local restriction / restricted turns x algorithm (Dijkstra, A* wf in {default,0,0.5,1,2,10} from config or query, single-via k 1-4, Yen k 1-4) x orientation (vertex | edge) x direction x distinct origin/destination (destination optional for plain searches). non-trivial = a returned route with >= 2 edges or a returned tree with >= 3 entries".to_string()
    }
    fn strategy(&self, tier: Tier) -> BoxedStrategy<SearchCase> {
        // one case in 250 comes from networks of up to 400 (thorough 1500) vertices: chains and
        // grids there give routes of hundreds of edges and trees of hundreds of entries
        prop_oneof![
            249 => search_case_strategy(tier.pick(12, 40), false),
            1 => prop_oneof![search_case_strategy(tier.pick(400, 1500), false), search_case_strategy_from(net_long(tier.pick(800, 1500)).boxed(), false)],
        ]
        .boxed()
    }
    fn cases(&self, tier: Tier) -> u32 {
        tier.pick(60_000, 3_000_000)
    }
    fn assumptions(&self) -> Vec<String> {
        vec![
            "reverse-direction routes are judged in search order (the un-re-oriented reverse API returns them so)".into(),
            "edge-oriented searches are run in forward direction only (no caller runs them in reverse; the meaning is undefined)".into(),
            "Yen with a shortest path of <= 2 edges and k >= 2 is never executed (listed finding under C13)".into(),
        ]
    }
    fn check(&self, case: &SearchCase) -> Outcome {
        let mut o = Outcome::new();
        let g = case.spec.net.ref_graph();
        let alg = case.alg.name().replace('*', "-star");
        let orient = if case.edge_oriented { "edge" } else { "vertex" };
        o.label(format!("alg-{}", alg));
        o.label(format!("orientation-{}", orient));
        o.label(format!("shape-{}", case.spec.net.shape));
        o.label_if(case.reverse, "reverse");
        o.label_if(case.spec.net.has_self_loop(), "self-loop-in-graph");
        o.label_if(case.spec.net.has_parallel(), "parallel-edges-in-graph");
        o.label_if(case.d.is_none(), "no-destination");
        let built = match build_si(&case.spec, BuildOpts::default()) {
            Ok(b) => b,
            Err(e) => {
                o.label(format!("build-error:{}", &e[..e.len().min(40)]));
                return o;
            }
        };
        let outcome = run_search(case, &built.si);
        let res = match outcome {
            RunOutcome::YensShortPathNotExecuted(_) => {
                o.label("yens-short-path-not-executed");
                return o;
            }
            RunOutcome::YensUnbounded => {
                o.label("yens-unbounded-killed");
                return o;
            }
            RunOutcome::YensPanic(loc, _) => {
                o.label(format!("yens-panic@{}", loc));
                return o;
            }
            RunOutcome::IsolationFailed(e) => {
                o.label(format!("isolation-failed:{}", e));
                return o;
            }
            RunOutcome::Done(Err(e)) => {
                o.label(e.label());
                if let ErrKind::Internal(s) = &e {
                    o.label_if(s.contains("loop in search result"), "error-loop-in-backtrack");
                }
                return o;
            }
            RunOutcome::Done(Ok(r)) => r,
        };
        let (s_v, t_v) = case.vertex_endpoints();
        let sig = |what: &str, reason: &str| {
            if case.alg.is_yens() {
                // Yen's routes are invalid in many ways for one root cause (listed finding);
                // keyed by reason only
                format!("C01/yens/{}/{}", what, strip(reason))
            } else {
                format!("C01/{}/{}/{}/{}", alg, orient, what, strip(reason))
            }
        };
        // routes
        if case.d.is_some() {
            if res.routes.is_empty() {
                o.fail(sig("route", "success-without-route"), json!({}));
            }
            o.label_if(res.routes.len() > 1, "ksp-route-index>0");
            o.label_if(res.routes.iter().any(|r| r.len() >= 64), "route-of-64+-edges");
            o.label_if(res.routes.iter().any(|r| r.len() >= 256), "route-of-256+-edges");
            o.label_if(res.trees.iter().any(|t| t.len() >= 256), "tree-of-256+-entries");
            for (i, route) in res.routes.iter().enumerate() {
                let ids = route_ids(route);
                let verdict = if case.edge_oriented {
                    walk_edge_oriented(&g, &ids, case.o, case.d.unwrap())
                } else if case.reverse {
                    walk_reverse(&g, &ids, case.o, case.d.unwrap())
                } else {
                    walk_forward(&g, &ids, case.o, case.d.unwrap())
                };
                if ids.len() >= 2 {
                    o.nontrivial = true;
                }
                let mut seen = std::collections::HashSet::new();
                if ids
                    .windows(2)
                    .any(|w| !seen.insert((g.edges[w[0]].src, g.edges[w[0]].dst)) )
                {
                    o.label("parallel-or-repeated-arc-on-route");
                }
                if let Err(reason) = verdict {
                    o.fail(
                        sig("route", &reason),
                        json!({"route_index": i, "route": ids, "reason": reason}),
                    );
                }
            }
        } else if !res.routes.is_empty() && res.routes.iter().any(|r| !r.is_empty()) && !case.edge_oriented {
            o.fail(sig("route", "route-without-destination"), json!({}));
        }
        // trees
        // edge-oriented searches may carry a marker entry for the origin edge at the root of the
        // forward tree (destination-less searches and adjacent origin/destination edges)
        let marker = if case.edge_oriented { Some(case.o) } else { None };
        let expected_roots: Vec<(usize, bool, Option<usize>)> = match &case.alg {
            AlgSpec::Dijkstra | AlgSpec::AStar { .. } => {
                if case.edge_oriented {
                    vec![(s_v, false, marker)]
                } else {
                    vec![(case.o, case.reverse, None)]
                }
            }
            AlgSpec::SingleVia { .. } => match t_v {
                Some(t) => vec![(s_v, false, marker), (t, true, None)],
                None => vec![],
            },
            AlgSpec::Yens { .. } => vec![(s_v, false, marker)],
        };
        if res.trees.len() > expected_roots.len() {
            o.fail(
                sig("tree", "unexpected-number-of-trees"),
                json!({"trees": res.trees.len(), "expected": expected_roots.len()}),
            );
        }
        for (tree, (root, rev, marker)) in res.trees.iter().zip(expected_roots.iter()) {
            if tree.len() >= 3 {
                o.nontrivial = true;
            }
            if let Err(reason) = check_tree(&g, tree, *root, *rev, *marker) {
                let dump: Vec<(usize, usize, usize)> = tree
                    .iter()
                    .map(|b| (b.vertex, b.parent, b.et.edge_id.0))
                    .collect();
                o.fail(
                    sig("tree", &reason),
                    json!({"root": root, "reverse": rev, "tree(vertex,parent,edge)": dump, "reason": reason}),
                );
            }
        }
        o
    }
}
