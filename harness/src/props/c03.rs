//! C03 — reported state and costs along a route are the true sums over its edges
use crate::engine::{Outcome, Prop, Tier};
use crate::gen::*;
use crate::searchrun::*;
use crate::simodel::*;
use proptest::prelude::*;
use routee_compass_core::algorithm::search::edge_traversal::EdgeTraversal;
use routee_compass_core::algorithm::search::search_instance::SearchInstance;
use routee_compass_core::model::access::default::turn_delays::edge_heading::EdgeHeading;
use routee_compass_core::model::access::default::turn_delays::turn::Turn;
use routee_compass_core::model::unit::as_f64::AsF64;
use serde_json::json;

pub struct C03;

pub fn c03_strategy(max_n: usize, algs: BoxedStrategy<AlgSpec>) -> BoxedStrategy<SearchCase> {
    c03_strategy_from(net_any(max_n).boxed(), algs)
}

pub fn c03_strategy_from(nets: BoxedStrategy<NetCase>, algs: BoxedStrategy<AlgSpec>) -> BoxedStrategy<SearchCase> {
    nets
        .prop_flat_map(move |net| {
            let m = net.m();
            (
                Just(net),
                trav_strategy(m, true),
                proptest::option::weighted(0.7, turn_delay_strategy(m)),
                state_strategy(),
                algs.clone(),
                (any::<bool>(), any::<bool>(), any::<u16>(), any::<u16>()),
                (
                    proptest::option::weighted(0.15, prop_oneof![Just(0.0f64), Just(1.0), Just(3.0)]),
                    proptest::option::weighted(0.15, 1usize..5),
                ),
                (rate_any(), rate_any()),
                proptest::option::weighted(0.25, proptest::collection::vec((any::<u16>(), any::<u16>(), (0.0f64..40.0).prop_map(|v| (v * 4.0).round() / 4.0)), 1..6)),
            )
        })
        .prop_flat_map(|(net, trav, access, state, alg, misc, q, rates, pairs)| {
            let has_time = matches!(trav, TravSpec::Speed { .. });
            let m = net.m();
            (
                Just((net, trav, access, state, alg, misc, q, rates, pairs)),
                cost_nonneg(m, has_time),
            )
        })
        .prop_map(|((net, trav, access, state, alg, misc, q, rates, pairs), mut cost)| {
            let (edge_o, reverse, a, b) = misc;
            let has_time = matches!(trav, TravSpec::Speed { .. });
            let n = net.n();
            let m = net.m();
            let edge_oriented = edge_o && m >= 2;
            let reverse = reverse && !alg.is_ksp() && !edge_oriented;
            let (o, d) = if edge_oriented { od_pair(m, a, b) } else { od_pair(n, a, b) };
            cost.r_dist = rates.0;
            cost.r_time = rates.1;
            cost.pair_surcharge = pairs.map(|v| {
                (
                    1u8,
                    v.into_iter()
                        .map(|(x, y, c)| (crate::engine::pick_idx(x, m.max(1)), crate::engine::pick_idx(y, m.max(1)), c))
                        .collect(),
                )
            });
            SearchCase {
                spec: SiSpec {
                    net,
                    trav,
                    access: if has_time { access } else { None },
                    cost,
                    state,
                    allowed: None,
                    restricted_turns: vec![],
                },
                alg,
                edge_oriented,
                reverse,
                o,
                d: Some(d),
                query_wf: q.0,
                query_k: q.1,
            }
        })
        .boxed()
}

/// how the first / last edge of a route is expected to be reported
#[derive(Clone, Copy, PartialEq, Debug)]
enum EndMode {
    Real,
    /// zero cost, state unchanged (edge-oriented origin / destination edge)
    Marker,
}

struct Expect {
    dist: f64,
    time: f64,
    /// reference (un-floored total, un-floored access share, scale of the terms)
    total: f64,
    /// range of the un-floored total when the state changes vary by +-0.25 % (unit constants)
    total_range: (f64, f64),
    access: Option<f64>,
    access_range: (f64, f64),
    scale: f64,
    marker: bool,
}

/// expected accumulation along `ids` (forward travel order semantics given by `turn_of_pair`)
fn expectations(
    spec: &SiSpec,
    ids: &[usize],
    first: EndMode,
    last: EndMode,
    reverse: bool,
) -> Vec<Expect> {
    let ev = RefEval::new(spec);
    let mut out = vec![];
    let mut dist = spec.state.dist_init;
    let mut time = spec.state.time_init;
    let mut prev: Option<usize> = None;
    for (k, e) in ids.iter().enumerate() {
        let is_marker = (k == 0 && first == EndMode::Marker) || (k + 1 == ids.len() && last == EndMode::Marker);
        if is_marker {
            out.push(Expect {
                dist,
                time,
                total: 0.0,
                total_range: (0.0, 0.0),
                access: None,
                access_range: (0.0, 0.0),
                scale: 0.0,
                marker: true,
            });
            // a marker edge is not a predecessor for turn purposes (the vertex search starts
            // / ends without it)
            continue;
        }
        // in a reverse search the "previous" edge of the search is the *next* edge of travel
        let turn = prev.map(|p| if reverse { ev.d_turn(*e, p) } else { ev.d_turn(p, *e) }).unwrap_or(0.0);
        let dd = ev.d_dist(*e);
        let dt = ev.d_time(*e);
        dist += dd;
        time += dt + turn;
        let c = &spec.cost;
        let has_time = spec.has_time();
        let sur_e = |f: u8| -> f64 {
            match &c.edge_surcharge {
                Some((ff, t)) => {
                    let eff = if *ff == 1 && has_time { 1 } else { 0 };
                    if eff == f {
                        t.get(*e).copied().unwrap_or(0.0)
                    } else {
                        0.0
                    }
                }
                None => 0.0,
            }
        };
        let total_at = |dd: f64, dtt: f64| -> f64 {
            let mut total = c.w_dist * (c.r_dist.eval(dd) + sur_e(0));
            if has_time {
                total += c.w_time * (c.r_time.eval(dtt) + sur_e(1));
            }
            total
        };
        let total = total_at(dd, dt + turn);
        let mut scale = (c.w_dist * c.r_dist.eval(dd)).abs() + (c.w_dist * sur_e(0)).abs();
        if has_time {
            scale += (c.w_time * c.r_time.eval(dt + turn)).abs() + (c.w_time * sur_e(1)).abs();
        }
        // rates are compositions of affine maps, so the extremes are at the interval ends
        let mut total_range = (f64::INFINITY, f64::NEG_INFINITY);
        for fd in [1.0 - 2.5e-3, 1.0 + 2.5e-3] {
            for ft in [1.0 - 2.5e-3, 1.0 + 2.5e-3] {
                let v = total_at(dd * fd, (dt + turn) * ft);
                total_range = (total_range.0.min(v), total_range.1.max(v));
            }
        }
        let access = prev.map(|p| {
            let (pp, nn) = if reverse { (*e, p) } else { (p, *e) };
            let pair = |f: u8| -> f64 {
                match &c.pair_surcharge {
                    Some((ff, pairs)) => {
                        let eff = if *ff == 1 && has_time { 1 } else { 0 };
                        if eff == f {
                            pairs
                                .iter()
                                .rev()
                                .find(|(a, b, _)| *a == pp && *b == nn)
                                .map(|(_, _, v)| *v)
                                .unwrap_or(0.0)
                        } else {
                            0.0
                        }
                    }
                    None => 0.0,
                }
            };
            let at = |tt: f64| -> f64 {
                let mut a = c.w_dist * (c.r_dist.eval(0.0) + pair(0));
                if has_time {
                    a += c.w_time * (c.r_time.eval(tt) + pair(1));
                }
                a
            };
            (at(turn), at(turn * (1.0 - 2.5e-3)), at(turn * (1.0 + 2.5e-3)))
        });
        let access_range = access
            .map(|(_, a, b)| (a.min(b), a.max(b)))
            .unwrap_or((0.0, 0.0));
        let access = access.map(|(a, _, _)| a);
        out.push(Expect {
            dist,
            time,
            total,
            total_range,
            access,
            access_range,
            scale,
            marker: false,
        });
        prev = Some(*e);
    }
    out
}

fn read_state(si: &SearchInstance, spec: &SiSpec, et: &EdgeTraversal) -> Result<(f64, f64), String> {
    let ev = RefEval::new(spec);
    let d = si
        .state_model
        .get_distance(&et.result_state, &DIST.to_string(), &ev.dist_unit())
        .map_err(|e| e.to_string())?
        .as_f64();
    let t = if spec.has_time() {
        si.state_model
            .get_time(&et.result_state, &TIME.to_string(), &ev.time_unit())
            .map_err(|e| e.to_string())?
            .as_f64()
    } else {
        spec.state.time_init
    };
    Ok((d, t))
}

fn near(a: f64, b: f64, rel: f64) -> bool {
    (a - b).abs() <= rel * a.abs().max(b.abs()) + 1e-9
}

/// laws of the turn classifier that the statement implies (exhaustive, run once per process)
pub fn turn_classifier_laws() -> Result<(), (String, serde_json::Value)> {
    // the wrapped heading difference, for all 360 x 360 heading pairs
    for a in 0i16..360 {
        for b in 0i16..360 {
            let got = EdgeHeading::new(0, a).bearing_to_destination(&EdgeHeading::new(b, 0));
            let mut want = b as i32 - a as i32;
            while want > 180 {
                want -= 360;
            }
            while want < -180 {
                want += 360;
            }
            // +180 and -180 are the same turn
            if got as i32 != want && !(got.abs() == 180 && want.abs() == 180) {
                return Err((
                    "C03/turn/heading-difference".into(),
                    json!({"end_heading_of_previous": a, "start_heading_of_next": b, "got": got, "expected": want}),
                ));
            }
        }
    }
    let sev = |t: &Turn| match t {
        Turn::NoTurn => 0,
        Turn::SlightLeft | Turn::SlightRight => 1,
        Turn::Left | Turn::Right => 2,
        Turn::SharpLeft | Turn::SharpRight => 3,
        Turn::UTurn => 4,
    };
    let is_left = |t: &Turn| matches!(t, Turn::SlightLeft | Turn::Left | Turn::SharpLeft);
    let is_right = |t: &Turn| matches!(t, Turn::SlightRight | Turn::Right | Turn::SharpRight);
    let mut prev_sev_pos = 0;
    let mut prev_sev_neg = 0;
    for a in 0i16..=180 {
        for sign in [1i16, -1] {
            let ang = a * sign;
            let t = match Turn::from_angle(ang) {
                Ok(t) => t,
                Err(e) => {
                    return Err(("C03/turn/angle-without-class".into(), json!({"angle": ang, "error": e.to_string()})))
                }
            };
            if (ang > 0 && is_left(&t)) || (ang < 0 && is_right(&t)) {
                return Err(("C03/turn/left-right-confused".into(), json!({"angle": ang, "class": t.to_string()})));
            }
            let s = sev(&t);
            let prev = if sign == 1 { &mut prev_sev_pos } else { &mut prev_sev_neg };
            if s < *prev {
                return Err(("C03/turn/severity-not-monotone".into(), json!({"angle": ang, "class": t.to_string()})));
            }
            *prev = s;
        }
    }
    let cls = |a: i16| Turn::from_angle(a).map(|t| sev(&t)).unwrap_or(-1);
    if cls(0) != 0 || cls(180) != 4 || cls(-180) != 4 {
        return Err(("C03/turn/fixed-points".into(), json!({"0": cls(0), "180": cls(180), "-180": cls(-180)})));
    }
    if !matches!(Turn::from_angle(90), Ok(Turn::Right)) || !matches!(Turn::from_angle(-90), Ok(Turn::Left)) {
        return Err(("C03/turn/right-angle".into(), json!({})));
    }
    Ok(())
}

static TURN_LAWS: std::sync::OnceLock<Result<(), (String, serde_json::Value)>> = std::sync::OnceLock::new();

/// returns the route position of the first failing edge, if any
pub fn check_route_accumulation(
    o: &mut Outcome,
    case: &SearchCase,
    si: &SearchInstance,
    route: &[EdgeTraversal],
    route_index: usize,
    sig_prefix: &str,
) -> Option<usize> {
    let spec = &case.spec;
    let g = spec.net.ref_graph();
    let ids = route_ids(route);
    if ids.is_empty() || ids.iter().any(|e| *e >= g.m()) {
        return None; // C01's business
    }
    let (first, last) = if case.edge_oriented {
        // a two-edge edge-oriented route is the adjacent special case (the general case has at
        // least one edge between the origin and destination edges)
        let adjacent = ids.len() == 2 && g.edges[ids[0]].dst == g.edges[ids[1]].src;
        if adjacent {
            (EndMode::Real, EndMode::Real)
        } else {
            (EndMode::Marker, EndMode::Marker)
        }
    } else {
        (EndMode::Real, EndMode::Real)
    };
    let exp = expectations(spec, &ids, first, last, case.reverse);
    let ev = RefEval::new(spec);
    let mut prev_d = spec.state.dist_init;
    let mut prev_t = spec.state.time_init;
    let mut nonzero_turn = false;
    for (k, (et, ex)) in route.iter().zip(exp.iter()).enumerate() {
        let (d, t) = match read_state(si, spec, et) {
            Ok(x) => x,
            Err(e) => {
                o.fail(format!("{}/state-unreadable", sig_prefix), json!({"error": e}));
                return Some(k);
            }
        };
        let ctx = json!({"route_index": route_index, "route": ids, "position": k, "edge": ids[k],
            "reported": {"distance": d, "time": t, "access_cost": et.access_cost.as_f64(), "traversal_cost": et.traversal_cost.as_f64()},
            "expected": {"distance": ex.dist, "time": ex.time, "total_cost_unfloored": ex.total, "access_cost_unfloored": ex.access},
            "units": {"distance": ev.dist_unit().to_string(), "time": ev.time_unit().to_string()}});
        if !near(d, ex.dist, 2e-3) {
            o.fail(format!("{}/distance-is-not-the-sum-of-edge-lengths", sig_prefix), ctx);
            return Some(k);
        }
        if spec.has_time() && !near(t, ex.time, 2e-3) {
            o.fail(format!("{}/time-is-not-the-sum-of-edge-times-and-turn-delays", sig_prefix), ctx);
            return Some(k);
        }
        if d < prev_d - 1e-9 || t < prev_t - 1e-9 {
            o.fail(format!("{}/distance-or-time-decreases", sig_prefix), ctx);
            return Some(k);
        }
        prev_d = d;
        prev_t = t;
        let total = et.total_cost().as_f64();
        if ex.marker {
            if total > 2e-10 {
                o.fail(format!("{}/origin-or-destination-edge-carries-cost", sig_prefix), ctx);
                return Some(k);
            }
            continue;
        }
        let tol = 1e-6 * ex.scale + 1e-9;
        let fl = |x: f64| if x > 0.0 { x } else { 1e-10 };
        // the charged total must lie in the (floored) range the reference allows
        let (lo, hi) = (fl(ex.total_range.0), fl(ex.total_range.1));
        if total < lo - tol || total > hi + tol {
            o.fail(format!("{}/edge-cost-is-not-the-weighted-rated-state-change", sig_prefix), ctx);
            return Some(k);
        }
        if let Some(a) = ex.access {
            let (lo, hi) = (fl(ex.access_range.0), fl(ex.access_range.1));
            let got = et.access_cost.as_f64();
            if got < lo - tol || got > hi + tol {
                o.fail(format!("{}/access-cost", sig_prefix), ctx);
                return Some(k);
            }
            if a > 1e-6 * ex.scale + 1e-9 {
                nonzero_turn = true;
            }
        } else if et.access_cost.as_f64().abs() > 1e-9 {
            o.fail(format!("{}/access-cost-without-previous-edge", sig_prefix), ctx);
            return Some(k);
        }
    }
    if ids.len() >= 3 && nonzero_turn {
        o.nontrivial = true;
    }
    o.label_if(nonzero_turn, "non-zero-turn-delay-or-surcharge");
    None
}

/// application-level case: the same accumulation, observed in the responses of an application
/// built from files (speed table, heading table, turn-delay table with its own time unit through
/// the configuration builders), optionally with the state features re-declared by the query
#[derive(Clone, Debug, serde::Serialize, serde::Deserialize)]
pub struct C03App {
    pub search: SearchCase,
    /// `state_features` of the query: units and initial values of distance and time
    pub query_state: Option<StateSpec>,
}

#[derive(Clone, Debug, serde::Serialize, serde::Deserialize)]
#[serde(untagged)]
pub enum C03Case {
    App(C03App),
    Direct(SearchCase),
}

fn c03_app_strategy(max_n: usize) -> BoxedStrategy<C03App> {
    (
        c03_strategy(max_n, base_alg().boxed()),
        proptest::option::weighted(0.5, state_strategy()),
    )
        .prop_map(|(mut search, query_state)| {
            search.edge_oriented = false;
            search.reverse = false;
            let n = search.spec.net.n();
            if search.o >= n {
                search.o = 0;
            }
            if search.d.map(|d| d >= n || d == search.o).unwrap_or(true) {
                search.d = Some((search.o + 1) % n);
            }
            search.query_k = None;
            search.query_wf = None;
            // Dijkstra only: A* can re-open a vertex and keep stale children (listed finding,
            // recognised in the direct variant through the counting frontier, which an
            // application does not have); this variant is about the configuration and glue layer
            search.alg = AlgSpec::Dijkstra;
            search.spec.allowed = None;
            search.spec.restricted_turns = vec![];
            // what a configuration file can say: leaf rates, no surcharges
            search.spec.cost.edge_surcharge = None;
            search.spec.cost.pair_surcharge = None;
            search.spec.cost.r_dist = RateSpec::Raw;
            search.spec.cost.r_time = RateSpec::Raw;
            if !search.spec.has_time() {
                search.spec.access = None;
                search.spec.cost.w_time = 0.0;
            }
            if search.spec.cost.w_dist + search.spec.cost.w_time <= 0.0 {
                search.spec.cost.w_dist = 1.0;
            }
            C03App { search, query_state }
        })
        .boxed()
}

fn check_app(c: &C03App) -> Outcome {
    use crate::appbuild::*;
    let mut o = Outcome::new();
    o.label("through-application");
    o.label_if(c.query_state.is_some(), "query-declares-state-features");
    let sc = &c.search;
    o.label_if(sc.spec.access.is_some(), "turn-delays");
    let has_time = sc.spec.has_time();
    let mut app = AppSpec::simple(sc.spec.net.clone());
    app.trav = sc.spec.trav.clone();
    app.access = sc.spec.access.clone();
    app.state = Some(sc.spec.state.clone());
    app.alg = AlgSpec::Dijkstra; // see c03_app_strategy
    app.w_dist = sc.spec.cost.w_dist;
    app.w_time = sc.spec.cost.w_time;
    app.output_plugins = vec![OutPlugin::Traversal {
        route: Some("json".into()),
        tree: None,
    }];
    let dir = crate::engine::CaseDir::new();
    let (capp, _files) = match build_app(&app, &dir) {
        Ok(a) => a,
        Err(e) => {
            o.fail("C03/app/build-error", json!({"error": e}));
            return o;
        }
    };
    // the state in force: the query's declaration, else what the traversal model contributes
    // (a speed model keeps distance and time in its own units from zero), else the configuration
    let state = match (&c.query_state, &sc.spec.trav) {
        (Some(qs), _) => qs.clone(),
        (None, TravSpec::Speed { dist_unit, time_unit, .. }) => StateSpec {
            dist_unit: *dist_unit,
            dist_init: 0.0,
            time_unit: *time_unit,
            time_init: 0.0,
        },
        // the distance model contributes no feature of its own: the configured one is in force
        (None, TravSpec::Distance { .. }) => sc.spec.state.clone(),
    };
    let mut q = serde_json::Map::new();
    q.insert("origin_vertex".into(), json!(sc.o));
    q.insert("destination_vertex".into(), json!(sc.d.unwrap_or(0)));
    if let Some(qs) = &c.query_state {
        let mut f = serde_json::Map::new();
        f.insert(
            DIST.into(),
            json!({"distance_unit": DIST_UNIT_NAMES[qs.dist_unit as usize % 5], "initial": qs.dist_init}),
        );
        if has_time {
            f.insert(
                TIME.into(),
                json!({"time_unit": TIME_UNIT_NAMES[qs.time_unit as usize % 4], "initial": qs.time_init}),
            );
        }
        q.insert("state_features".into(), serde_json::Value::Object(f));
    }
    let query = serde_json::Value::Object(q);
    // another query runs first on the same application, declaring the state the other way
    // round (own declaration <-> none): nothing of it may carry over into the judged query
    {
        let mut d = serde_json::Map::new();
        d.insert("origin_vertex".into(), json!(sc.d.unwrap_or(0)));
        d.insert("destination_vertex".into(), json!(sc.o));
        // ... or, for half of the declaring queries, the same feature names declared in other
        // units with other initial values (a declaration is more than its set of names)
        let same_names = c.query_state.is_some() && (sc.o + sc.spec.net.m()) % 2 == 0;
        if c.query_state.is_none() || same_names {
            let (du0, tu0) = match &c.query_state {
                Some(qs) => (qs.dist_unit as usize, qs.time_unit as usize),
                None => (sc.spec.state.dist_unit as usize, sc.spec.state.time_unit as usize),
            };
            let mut f = serde_json::Map::new();
            // (half of these keep the units and differ in the initial values only)
            let shift = if same_names && (sc.o + sc.spec.net.m()) % 4 == 0 { 0 } else { 1 };
            f.insert(DIST.into(), json!({"distance_unit": DIST_UNIT_NAMES[(du0 + shift) % 5], "initial": 1234.5}));
            if has_time {
                f.insert(TIME.into(), json!({"time_unit": TIME_UNIT_NAMES[(tu0 + shift) % 4], "initial": 77.25}));
            }
            d.insert("state_features".into(), serde_json::Value::Object(f));
        }
        o.label_if(same_names, "app-earlier-query-declares-the-same-names-differently");
        let _ = capp.run(vec![serde_json::Value::Object(d)], Some(&json!({"parallelism": 1})));
    }
    let resp = match capp.run(vec![query.clone()], Some(&json!({"parallelism": 1}))) {
        Ok(r) if r.len() == 1 => r.into_iter().next().unwrap(),
        Ok(r) => {
            o.fail("C03/app/response-count", json!({"responses": r.len()}));
            return o;
        }
        Err(e) => {
            o.fail("C03/app/run-error", json!({"error": e.to_string()}));
            return o;
        }
    };
    if resp.get("error").is_some() {
        o.label("app-error-response");
        return o;
    }
    let route = match resp.get("route") {
        Some(r) => r,
        None => return o,
    };
    let path: Vec<serde_json::Value> = route.get("path").and_then(|p| p.as_array()).cloned().unwrap_or_default();
    let ids: Vec<usize> = path.iter().filter_map(|e| e.get("edge_id").and_then(|x| x.as_u64()).map(|x| x as usize)).collect();
    let g = sc.spec.net.ref_graph();
    if ids.is_empty() || ids.len() != path.len() || ids.iter().any(|e| *e >= g.m()) {
        return o;
    }
    // the state model the response declares: units and initial values are the ones in force
    let sm = route.get("state_model").cloned().unwrap_or(json!({}));
    let slot = |name: &str| sm.get(name).and_then(|f| f.get("index")).and_then(|i| i.as_u64()).map(|i| i as usize);
    let decl = |name: &str, key: &str| sm.get(name).and_then(|f| f.get(key)).cloned().unwrap_or(serde_json::Value::Null);
    let want_du = DIST_UNIT_NAMES[state.dist_unit as usize % 5];
    let want_tu = TIME_UNIT_NAMES[state.time_unit as usize % 4];
    let ctx0 = json!({"query": query, "declared_state_model": sm, "route": ids});
    if decl(DIST, "distance_unit") != json!(want_du) || (has_time && decl(TIME, "time_unit") != json!(want_tu)) {
        o.fail("C03/app/state-model-units-are-not-the-ones-in-force", json!({"ctx": ctx0, "expected": [want_du, want_tu]}));
        return o;
    }
    let init_ok = |v: serde_json::Value, want: f64| v.as_f64().map(|x| (x - want).abs() <= 1e-9 * want.abs() + 1e-12).unwrap_or(false);
    if !init_ok(decl(DIST, "initial"), state.dist_init) || (has_time && !init_ok(decl(TIME, "initial"), state.time_init)) {
        o.fail("C03/app/state-model-initial-values-are-not-the-declared-ones", json!({"ctx": ctx0, "expected": [state.dist_init, state.time_init]}));
        return o;
    }
    let (di, ti) = match (slot(DIST), if has_time { slot(TIME) } else { Some(0) }) {
        (Some(d), Some(t)) => (d, t),
        _ => {
            o.fail("C03/app/state-model-without-slots", ctx0);
            return o;
        }
    };
    // reference accumulation in the units in force, from the initial values in force
    let mut spec = sc.spec.clone();
    spec.state = state.clone();
    let ev = RefEval::new(&spec);
    let mut dist = state.dist_init;
    let mut time = state.time_init;
    let mut prev: Option<usize> = None;
    let mut nonzero_turn = false;
    let mut cost_sum = 0.0;
    for (k, e) in ids.iter().enumerate() {
        dist += ev.d_dist(*e);
        time += ev.d_time(*e);
        if let Some(p) = prev {
            let dt = ev.d_turn(p, *e);
            if dt > 0.0 {
                nonzero_turn = true;
            }
            time += dt;
        }
        prev = Some(*e);
        let rs: Vec<f64> = path[k]
            .get("result_state")
            .and_then(|r| r.as_array())
            .map(|a| a.iter().map(|x| x.as_f64().unwrap_or(f64::NAN)).collect())
            .unwrap_or_default();
        let (gd, gt) = (rs.get(di).copied().unwrap_or(f64::NAN), if has_time { rs.get(ti).copied().unwrap_or(f64::NAN) } else { 0.0 });
        let ctx = json!({"ctx": ctx0, "position": k, "edge": e, "reported": {"distance": gd, "time": gt}, "expected": {"distance": dist, "time": time}, "units": [want_du, want_tu]});
        if !near(gd, dist, 2e-3) {
            o.fail("C03/app/distance-is-not-the-sum-of-edge-lengths", ctx);
            return o;
        }
        if has_time && !near(gt, time, 2e-3) {
            o.fail("C03/app/time-is-not-the-sum-of-edge-times-and-turn-delays", ctx);
            return o;
        }
        cost_sum += path[k].get("access_cost").and_then(|x| x.as_f64()).unwrap_or(0.0)
            + path[k].get("traversal_cost").and_then(|x| x.as_f64()).unwrap_or(0.0);
    }
    // the summary is the state after the last edge: first against the last edge's own reported
    // state (same response, same units: equal up to float formatting), then against the reference
    if let (Some(ts), Some(last)) = (route.get("traversal_summary"), path.last()) {
        let rs: Vec<f64> = last
            .get("result_state")
            .and_then(|r| r.as_array())
            .map(|a| a.iter().map(|x| x.as_f64().unwrap_or(f64::NAN)).collect())
            .unwrap_or_default();
        for (name, slot) in [(DIST, Some(di)), (TIME, if has_time { Some(ti) } else { None })] {
            if let (Some(slot), Some(v)) = (slot, ts.get(name).and_then(|x| x.as_f64())) {
                let want = rs.get(slot).copied().unwrap_or(f64::NAN);
                if !((v - want).abs() <= 1e-9 * want.abs() + 1e-300) {
                    o.fail(
                        "C03/app/summary-differs-from-the-last-edge-state-of-the-same-response",
                        json!({"ctx": ctx0, "feature": name, "summary": v, "last_edge_state": want}),
                    );
                    return o;
                }
            }
        }
    }
    if let Some(ts) = route.get("traversal_summary") {
        let gd = ts.get(DIST).and_then(|x| x.as_f64());
        let gt = ts.get(TIME).and_then(|x| x.as_f64());
        if gd.map(|x| !near(x, dist, 2e-3)).unwrap_or(false) || (has_time && gt.map(|x| !near(x, time, 2e-3)).unwrap_or(false)) {
            o.fail("C03/app/summary-is-not-the-state-after-the-last-edge", json!({"ctx": ctx0, "summary": ts, "expected": {"distance": dist, "time": time}}));
            return o;
        }
    }
    // (route.cost is the unweighted monetary value of the absolute final state, not the sum of
    // the edges' search costs: the statement claims nothing about it and nothing is asserted)
    let _ = cost_sum;
    o.label_if(nonzero_turn, "non-zero-turn-delay-or-surcharge");
    o.nontrivial = ids.len() >= 3 && (nonzero_turn || c.query_state.is_some());
    o
}

impl Prop for C03 {
    type Case = C03Case;
    fn id(&self) -> &'static str {
        "C03"
    }
    fn rule(&self) -> String {
        "generated: network x speed table x heading table x turn-delay table (8 classes, any time unit) x distance/time/speed unit configuration x non-negative weights with any rates (incl. offset, negative factors) x optional per-edge and per-turn surcharges x all algorithms (Dijkstra, A* any factor, single-via, Yen) x orientation x direction; every returned route is re-accumulated edge by edge with SI units and the independently computed turn angle; one case in 15 goes through a real application built from files (speed, heading and turn-delay tables through the configuration builders, route rendered as per-edge JSON) with the state features optionally re-declared by the query (other units, non-zero initial values): declared units and initial values, per-edge states and the summary are judged in the response. Exhaustive side table: all 360x360 heading pairs for the wrapped heading difference and all angles -180..180 for the turn-classifier laws. non-trivial = route with >= 3 edges containing a turn with a non-zero delay or surcharge".to_string()
    }
    fn strategy(&self, tier: Tier) -> BoxedStrategy<C03Case> {
        let n = tier.pick(12, 40);
        prop_oneof![
            14 => c03_strategy(n, any_alg().boxed()).prop_map(C03Case::Direct),
            // large networks (up to 400 / 1500 vertices): accumulation over hundreds of edges
            1 => prop_oneof![19 => c03_strategy(n, base_alg().boxed()), 1 => c03_strategy_from(net_long(tier.pick(800, 1500)).boxed(), base_alg().boxed())].prop_map(C03Case::Direct),
            // networks with many alternatives (C13's generator): several routes per result
            2 => crate::props::c13::ksp_strategy(n.min(30)).prop_map(C03Case::Direct),
            1 => c03_app_strategy(n.min(16)).prop_map(C03Case::App),
        ]
        .boxed()
    }
    fn cases(&self, tier: Tier) -> u32 {
        tier.pick(100_000, 2_000_000)
    }
    fn exhaustive_note(&self, _tier: Tier) -> Option<String> {
        Some("side table only: all 129 600 (end heading, start heading) pairs for EdgeHeading::bearing_to_destination and all 361 angles for the Turn::from_angle laws".into())
    }
    fn assumptions(&self) -> Vec<String> {
        vec![
            "the degree boundaries between turn classes are not asserted (the statement fixes none); the class of the independently computed angle is taken from the implementation's classifier, whose laws (0 = no turn, 180 = u-turn, +90 right, -90 left, sign never confused, severity monotone) are checked exhaustively".into(),
            "state comparisons allow 0.2 % for unit-constant differences between the implementation and SI".into(),
            "edge-oriented routes: origin and destination edges are zero-cost markers (by design), except adjacent origin/destination edges which are reported as real traversals".into(),
        ]
    }
    fn check(&self, case: &C03Case) -> Outcome {
        let case = match case {
            C03Case::App(a) => return check_app(a),
            C03Case::Direct(c) => c,
        };
        let mut o = Outcome::new();
        let laws = TURN_LAWS.get_or_init(turn_classifier_laws);
        if let Err((sig, detail)) = laws {
            o.fail(sig.clone(), detail.clone());
            return o;
        }
        let alg = case.alg.name().replace('*', "-star");
        o.label(format!("alg-{}", alg));
        o.label(if case.edge_oriented { "edge-oriented" } else { "vertex-oriented" });
        o.label_if(case.reverse, "reverse");
        o.label_if(case.spec.access.is_some(), "turn-delays");
        if let TravSpec::Speed { speed_unit, dist_unit, time_unit, .. } = &case.spec.trav {
            o.label(format!("engine-units-{}-{}-{}", speed_unit, dist_unit, time_unit));
        }
        let built = match build_si(
            &case.spec,
            BuildOpts {
                counting: !case.alg.is_yens(),
                ..BuildOpts::default()
            },
        ) {
            Ok(b) => b,
            Err(_) => return o,
        };
        let res = match run_search(case, &built.si) {
            RunOutcome::Done(Ok(r)) => r,
            RunOutcome::Done(Err(e)) => {
                o.label(e.label());
                return o;
            }
            RunOutcome::YensUnbounded => {
                o.label("yens-unbounded-killed");
                return o;
            }
            _ => return o,
        };
        o.label_if(res.routes.len() > 1, "via-route");
        let prefix = if case.alg.is_yens() {
            "C03/yens".to_string()
        } else {
            format!("C03/{}/{}", alg, if case.edge_oriented { "edge" } else { "vertex" })
        };
        let calls = built.counting.as_ref().map(|c| c.take()).unwrap_or_default();
        let g = case.spec.net.ref_graph();
        for (i, route) in res.routes.iter().enumerate() {
            let mut probe = Outcome::new();
            let pos = check_route_accumulation(&mut probe, case, &built.si, route, i, &prefix);
            o.labels.extend(probe.labels.clone());
            o.nontrivial |= probe.nontrivial;
            if let (Some(k), Some(f)) = (pos, probe.failure.clone()) {
                // was the tail vertex of the failing edge (or of an earlier route edge) expanded
                // more than once with different predecessor edges?  then this is the listed
                // "re-opened vertex keeps stale children" finding, not a plain accumulation error
                let ids = route_ids(route);
                let reopened = ids.iter().take(k + 1).any(|e| {
                    let v = if case.reverse { g.edges[*e].dst } else { g.edges[*e].src };
                    let mut prevs = std::collections::HashSet::new();
                    for (ce, cp) in &calls {
                        // only calls shaped like an expansion of v in this search direction
                        let (cv, joins) = if case.reverse {
                            (g.edges[*ce].dst, cp.map(|p| g.edges[p].src == v).unwrap_or(true))
                        } else {
                            (g.edges[*ce].src, cp.map(|p| g.edges[p].dst == v).unwrap_or(true))
                        };
                        if cv == v && joins {
                            prevs.insert(*cp);
                        }
                    }
                    prevs.len() >= 2
                });
                // the origin/destination markers of an edge-oriented route are not tree entries
                // (run_edge_oriented builds them): a failure there is never the listed finding
                let adjacent = ids.len() == 2;
                let at_marker = case.edge_oriented && !adjacent && (k == 0 || k + 1 == ids.len());
                if reopened && !at_marker && case.heuristic_in_use() && !case.alg.is_yens() {
                    o.fail("C03/reopened-vertex/stale-child-state", f.detail);
                } else if case.alg.is_yens() {
                    // one root cause (spur search restarts from the initial state), many symptoms
                    o.fail("C03/yens/state-or-cost-not-accumulated-along-route", json!({"symptom": f.signature, "detail": f.detail}));
                } else {
                    o.fail(f.signature, f.detail);
                }
                break;
            }
        }
        o
    }
}
