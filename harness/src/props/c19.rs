//! C19 — the output file holds one intact record per response under any parallelism
use crate::appbuild::build_app;
use crate::batch::*;
use crate::engine::{CaseDir, Outcome, Prop, Tier};
use ordered_hash_map::OrderedHashMap;
use proptest::prelude::*;
use routee_compass::app::compass::response::csv::csv_mapping::CsvMapping;
use routee_compass::app::compass::response::response_output_format::ResponseOutputFormat;
use routee_compass::app::compass::response::response_output_policy::ResponseOutputPolicy;
use routee_compass::app::compass::response::response_persistence_policy::ResponsePersistencePolicy;
use serde::{Deserialize, Serialize};
use serde_json::{json, Value};
use std::collections::BTreeMap;
use std::sync::Arc;

#[derive(Clone, Debug, Serialize, Deserialize)]
pub enum ColSpec {
    /// one of the known paths
    Path(u8),
    Sum(Vec<u8>),
    Optional(u8),
    OptionalSum(Vec<u8>),
}

#[derive(Clone, Debug, Serialize, Deserialize)]
pub enum FormatSpec {
    JsonLines,
    Csv { columns: Vec<ColSpec>, sorted: bool },
}

#[derive(Clone, Debug, Serialize, Deserialize)]
pub struct C19Case {
    pub app: BatchAppSpec,
    pub queries: Vec<QuerySpec>,
    pub parallelism: usize,
    pub discard: bool,
    pub flush: Option<i64>,
    pub format: FormatSpec,
    pub runs: u8,
    pub pad_bytes: Vec<u32>,
    pub delays_us: Vec<u16>,
}

pub struct C19;

const PATHS: [&str; 8] = [
    "route.traversal_summary.distance",
    "route.cost.total_cost",
    "request.origin_vertex",
    "route.path",
    "error",
    "request.scenario",
    "padding",
    "request.no.such.field",
];

fn col_mapping(c: &ColSpec) -> CsvMapping {
    let p = |i: &u8| CsvMapping::Path(PATHS[*i as usize % PATHS.len()].to_string());
    match c {
        ColSpec::Path(i) => p(i),
        ColSpec::Sum(v) => CsvMapping::Sum {
            sum: v.iter().map(|i| Box::new(p(i))).collect(),
        },
        ColSpec::Optional(i) => CsvMapping::Optional {
            optional: Box::new(p(i)),
        },
        ColSpec::OptionalSum(v) => CsvMapping::Optional {
            optional: Box::new(CsvMapping::Sum {
                sum: v.iter().map(|i| Box::new(p(i))).collect(),
            }),
        },
    }
}

/// independent evaluation of a column on a response; None = the mapping fails (empty cell)
fn ref_eval(c: &ColSpec, resp: &Value) -> Option<Value> {
    fn path(i: u8, resp: &Value) -> Option<Value> {
        let mut cur = resp;
        for part in PATHS[i as usize % PATHS.len()].split('.') {
            cur = cur.as_object()?.get(part)?;
        }
        Some(cur.clone())
    }
    fn sum(v: &[u8], resp: &Value) -> Option<Value> {
        let mut total = 0.0;
        for i in v {
            match path(*i, resp)? {
                Value::Null => {}
                Value::Number(n) => total += n.as_f64()?,
                _ => return None,
            }
        }
        Some(json!(total))
    }
    match c {
        ColSpec::Path(i) => path(*i, resp),
        ColSpec::Sum(v) => sum(v, resp),
        ColSpec::Optional(i) => Some(path(*i, resp).unwrap_or(Value::Null)),
        ColSpec::OptionalSum(v) => Some(sum(v, resp).unwrap_or(Value::Null)),
    }
}

/// split a row into cells at top-level commas (cells are JSON texts)
fn split_cells(row: &str) -> Vec<String> {
    let mut cells = vec![];
    let mut cur = String::new();
    let mut depth = 0i32;
    let mut in_str = false;
    let mut esc = false;
    for ch in row.chars() {
        if in_str {
            cur.push(ch);
            if esc {
                esc = false;
            } else if ch == '\\' {
                esc = true;
            } else if ch == '"' {
                in_str = false;
            }
            continue;
        }
        match ch {
            '"' => {
                in_str = true;
                cur.push(ch);
            }
            '[' | '{' => {
                depth += 1;
                cur.push(ch);
            }
            ']' | '}' => {
                depth -= 1;
                cur.push(ch);
            }
            ',' if depth == 0 => {
                cells.push(std::mem::take(&mut cur));
            }
            _ => cur.push(ch),
        }
    }
    cells.push(cur);
    cells
}

fn canon_cell(text: &str) -> String {
    // compare cells as JSON values where possible (float text may differ by an ulp after re-parsing)
    match serde_json::from_str::<Value>(text) {
        Ok(v) => canonical(&json!({"cell": v})),
        Err(_) => text.to_string(),
    }
}

impl Prop for C19 {
    type Case = C19Case;
    fn id(&self) -> &'static str {
        "C19"
    }
    fn rule(&self) -> String {
        "generated: application over a lattice network (ids, grid, or grid + vertex matching + balancer so that input-plugin errors occur) x batch of 1-60 queries (successes, search errors, input-plugin errors, grid siblings) x parallelism 1-16 x both persistence policies x flush rate {absent, 1, 7, 1000} x format {JSON lines, CSV with 1-5 columns over paths / sums / optionals incl. failing paths, sorted or not} x 1-3 consecutive runs appending to the same file x records padded to 0 B - 200 KiB by a harness output plugin x per-query delays. Oracle: the file after run() has exactly one parseable line per response whose multiset equals the produced responses (run-alone reference for the discard policy), concatenated across runs; CSV: one header (first line only), rows follow the header's column order with cells = reference evaluation of the mapping; the responses handed back keep everything they had without a sink. non-trivial = parallelism >= 4, >= 8 responses, a record > 64 KiB, a search error and an input-plugin error".to_string()
    }
    fn cases(&self, tier: Tier) -> u32 {
        tier.pick(6_000, 80_000)
    }
    fn assumptions(&self) -> Vec<String> {
        vec![
            "the interleaving space of the worker pool is sampled (delays, 16 threads, records up to 200 KiB), not enumerated".into(),
            "the unsorted CSV column order is whatever the header line says; rows are judged against the header's order".into(),
        ]
    }
    fn strategy(&self, _tier: Tier) -> BoxedStrategy<C19Case> {
        let col = prop_oneof![
            4 => (0u8..8).prop_map(ColSpec::Path),
            2 => proptest::collection::vec(0u8..8, 1..3).prop_map(ColSpec::Sum),
            3 => (0u8..8).prop_map(ColSpec::Optional),
            1 => proptest::collection::vec(0u8..8, 1..3).prop_map(ColSpec::OptionalSum),
        ];
        let format = prop_oneof![
            1 => Just(FormatSpec::JsonLines),
            1 => (proptest::collection::vec(col, 0..5), any::<bool>()).prop_map(|(columns, sorted)| FormatSpec::Csv { columns, sorted }),
        ];
        (
            batch_app_strategy(vec![0, 1, 3, 4]),
            proptest::collection::vec(query_strategy(), 1..=60),
            1usize..=16,
            any::<bool>(),
            prop_oneof![Just(None), Just(Some(1i64)), Just(Some(7)), Just(Some(1000))],
            format,
            1u8..=3,
            proptest::collection::vec(prop_oneof![3 => Just(0u32), 2 => 50u32..2000, 1 => 66_000u32..200_000], 6),
            proptest::collection::vec(prop_oneof![2 => Just(0u16), 1 => 0u16..200], 6),
        )
            .prop_map(|(app, queries, parallelism, discard, flush, format, runs, pad_bytes, delays_us)| C19Case {
                app,
                queries,
                parallelism,
                discard,
                flush,
                format,
                runs,
                pad_bytes,
                delays_us,
            })
            .boxed()
    }
    fn check(&self, c: &C19Case) -> Outcome {
        let mut o = Outcome::new();
        o.label(format!("config-kind-{}", c.app.kind));
        o.label(match &c.format {
            FormatSpec::JsonLines => "json-lines",
            FormatSpec::Csv { .. } => "csv",
        });
        o.label_if(c.discard, "discard-policy");
        o.label(format!("runs-{}", c.runs));
        let dir = CaseDir::new();
        let (mut app, _files) = match build_app(&c.app.app_spec(), &dir) {
            Ok(a) => a,
            Err(e) => {
                o.fail("C19/app-build-error", json!({"error": e}));
                return o;
            }
        };
        app.output_plugins.push(Arc::new(PaddingOutputPlugin {
            bytes: c.pad_bytes.clone(),
        }));
        app.output_plugins.push(Arc::new(JitterOutputPlugin {
            delays_us: c.delays_us.clone(),
        }));
        let queries: Vec<Value> = c.queries.iter().enumerate().map(|(i, q)| query_json(&c.app, q, i)).collect();
        // reference: the responses without any sink
        let reference = match run_app(&app, queries.clone(), Some(1)) {
            Ok(r) => r,
            Err(e) => {
                o.fail("C19/run-error-without-sink", json!({"error": e}));
                return o;
            }
        };
        let n_resp = reference.len();
        let big = reference.iter().any(|r| r.get("padding").and_then(|p| p.as_str()).map(|s| s.len() > 65536).unwrap_or(false));
        let search_err = reference.iter().any(|r| is_error(r) && r.get("request").map(|q| q.get("origin_vertex").is_some()).unwrap_or(false));
        let plugin_err = reference.iter().any(|r| is_error(r) && r.get("request").map(|q| q.get("origin_vertex").is_none()).unwrap_or(false));
        o.nontrivial = c.parallelism >= 4 && n_resp >= 8 && big && search_err && plugin_err;
        o.label_if(big, "record>64KiB");
        o.label_if(plugin_err, "input-plugin-error-response");
        // the sink
        let out = dir.file(match &c.format {
            FormatSpec::JsonLines => "out.jsonl",
            FormatSpec::Csv { .. } => "out.csv",
        });
        let (format, columns): (ResponseOutputFormat, Vec<(String, ColSpec)>) = match &c.format {
            FormatSpec::JsonLines => (
                ResponseOutputFormat::Json {
                    newline_delimited: true,
                },
                vec![],
            ),
            FormatSpec::Csv { columns, sorted } => {
                let mut mapping: OrderedHashMap<String, CsvMapping> = OrderedHashMap::new();
                let mut cols = vec![("id".to_string(), ColSpec::Optional(255))];
                mapping.insert("id".to_string(), CsvMapping::Optional { optional: Box::new(CsvMapping::Path("request.qid".into())) });
                for (i, col) in columns.iter().enumerate() {
                    // names chosen so that sorted order differs from insertion order
                    // (mixed case: byte order and case-insensitive order differ)
                    let name = format!("{}col{}", ["m", "Z", "a", "K", "b"][i % 5], i);
                    mapping.insert(name.clone(), col_mapping(col));
                    cols.push((name, col.clone()));
                }
                (
                    ResponseOutputFormat::Csv {
                        mapping,
                        sorted: *sorted,
                    },
                    cols,
                )
            }
        };
        let file_policy = ResponseOutputPolicy::File {
            filename: out.to_string_lossy().to_string(),
            format,
            file_flush_rate: c.flush,
        };
        // how the sink reaches the application: 0/1 = the application's own policy, 2 = handed to
        // each run in the run configuration (JSON form of the same policy, persistence policy
        // likewise), 3 = a `combined` policy: a second newline-delimited JSON file in front of the
        // judged one (in front: the CSV sink may add its mapping errors to the response)
        let variant = (c.pad_bytes.len() + c.delays_us.len() + c.queries.len() + c.parallelism) % 4;
        let out2 = dir.file("second.jsonl");
        let policy = if variant == 3 {
            ResponseOutputPolicy::Combined {
                policies: vec![
                    Box::new(ResponseOutputPolicy::File {
                        filename: out2.to_string_lossy().to_string(),
                        format: ResponseOutputFormat::Json { newline_delimited: true },
                        file_flush_rate: c.flush,
                    }),
                    Box::new(file_policy),
                ],
            }
        } else {
            file_policy
        };
        o.label_if(variant == 2, "sink-from-run-configuration");
        o.label_if(variant == 3, "combined-sinks");
        let mut run_cfg = serde_json::Map::new();
        run_cfg.insert("parallelism".into(), json!(c.parallelism));
        if variant == 2 {
            match serde_json::to_value(&policy) {
                Ok(v) => {
                    run_cfg.insert("response_output_policy".into(), v);
                }
                Err(e) => {
                    o.fail("C19/policy-has-no-json-form", json!({"error": e.to_string()}));
                    return o;
                }
            }
            if c.discard {
                run_cfg.insert("response_persistence_policy".into(), json!("discard_response_from_memory"));
            }
        } else {
            app.response_output_policy = policy;
            if c.discard {
                app.response_persistence_policy = ResponsePersistencePolicy::DiscardResponseFromMemory;
            }
        }
        let run_cfg = Value::Object(run_cfg);
        let eval_col = |name: &str, col: &ColSpec, resp: &Value| -> Option<Value> {
            if name == "id" {
                Some(resp.get("request").and_then(|r| r.get("qid")).cloned().unwrap_or(Value::Null))
            } else {
                ref_eval(col, resp)
            }
        };
        for run in 0..c.runs {
            let returned = match app.run(queries.clone(), Some(&run_cfg)).map_err(|e| e.to_string()) {
                Ok(r) => r,
                Err(e) => {
                    o.fail("C19/run-error-with-sink", json!({"error": e, "run": run, "variant": variant}));
                    return o;
                }
            };
            // "whether or not responses are also kept in memory": when they are not, only the
            // error responses of queries refused before the search come back
            if c.discard && returned.iter().any(|r| !is_error(r)) {
                o.fail("C19/discard-policy-kept-search-responses-in-memory", json!({"returned": returned.len(), "variant": variant}));
                return o;
            }
            // the second file of a combined policy: one parseable record per response, equal to it
            if variant == 3 {
                let text2 = std::fs::read_to_string(&out2).unwrap_or_default();
                let lines2: Vec<&str> = text2.lines().collect();
                if lines2.len() != n_resp * (run as usize + 1) || (!text2.is_empty() && !text2.ends_with('\n')) {
                    o.fail("C19/combined/second-file/record-count", json!({"lines": lines2.len(), "responses": n_resp, "runs_so_far": run + 1}));
                    return o;
                }
                let mut parsed2 = vec![];
                for (i, l) in lines2.iter().enumerate() {
                    match serde_json::from_str::<Value>(l) {
                        Ok(v) => parsed2.push(v),
                        Err(e) => {
                            o.fail("C19/combined/second-file/unparseable-record", json!({"line": i, "error": e.to_string(), "length": l.len()}));
                            return o;
                        }
                    }
                }
                let mut want2: BTreeMap<String, usize> = BTreeMap::new();
                for (k, v) in multiset(&reference) {
                    want2.insert(k, v * (run as usize + 1));
                }
                if multiset(&parsed2) != want2 {
                    o.fail("C19/combined/second-file/records-differ-from-responses", json!({"runs_so_far": run + 1}));
                    return o;
                }
            }
            // no information loss in what is handed back
            if !c.discard {
                if returned.len() != n_resp {
                    o.fail("C19/returned-count-changes-with-sink", json!({"without_sink": n_resp, "with_sink": returned.len()}));
                    return o;
                }
                let mut by_key: BTreeMap<String, Vec<&Value>> = BTreeMap::new();
                for r in &returned {
                    by_key.entry(canonical(r.get("request").unwrap_or(&Value::Null))).or_default().push(r);
                }
                for r0 in &reference {
                    let key = canonical(r0.get("request").unwrap_or(&Value::Null));
                    let cands = by_key.get(&key).cloned().unwrap_or_default();
                    let keeps = |r1: &Value| -> bool {
                        r0.as_object()
                            .map(|m| {
                                m.iter().all(|(k, v)| {
                                    VOLATILE.contains(&k.as_str()) || r1.get(k).map(|x| canonical(&json!({"v": x})) == canonical(&json!({"v": v}))).unwrap_or(false)
                                })
                            })
                            .unwrap_or(false)
                    };
                    if !cands.iter().any(|r1| keeps(r1)) {
                        o.fail(
                            "C19/writing-a-response-removed-or-replaced-information",
                            json!({"without_sink": r0.as_object().map(|m| m.iter().filter(|(k, _)| k.as_str() != "padding").map(|(k, v)| (k.clone(), v.clone())).collect::<serde_json::Map<_, _>>()),
                                   "with_sink": cands.first().map(|r| r.as_object().map(|m| m.iter().filter(|(k, _)| k.as_str() != "padding").map(|(k, v)| (k.clone(), v.clone())).collect::<serde_json::Map<_, _>>()))}),
                        );
                        return o;
                    }
                }
            }
            // the file
            let text = match std::fs::read_to_string(&out) {
                Ok(t) => t,
                Err(e) => {
                    o.fail("C19/file-unreadable", json!({"error": e.to_string()}));
                    return o;
                }
            };
            if !text.is_empty() && !text.ends_with('\n') {
                o.fail("C19/file-ends-with-a-truncated-record", json!({"tail": &text[text.len().saturating_sub(80)..]}));
                return o;
            }
            let lines: Vec<&str> = text.lines().collect();
            let want_records = n_resp * (run as usize + 1);
            match &c.format {
                FormatSpec::JsonLines => {
                    if lines.len() != want_records {
                        o.fail(
                            "C19/json-lines/record-count",
                            json!({"lines": lines.len(), "responses": n_resp, "runs_so_far": run + 1, "parallelism": c.parallelism, "discard": c.discard}),
                        );
                        return o;
                    }
                    let mut parsed = vec![];
                    for (i, l) in lines.iter().enumerate() {
                        match serde_json::from_str::<Value>(l) {
                            Ok(v) => parsed.push(v),
                            Err(e) => {
                                o.fail(
                                    "C19/json-lines/unparseable-record",
                                    json!({"line": i, "error": e.to_string(), "head": &l[..l.len().min(120)], "length": l.len()}),
                                );
                                return o;
                            }
                        }
                    }
                    let mut want: BTreeMap<String, usize> = BTreeMap::new();
                    for (k, v) in multiset(&reference) {
                        want.insert(k, v * (run as usize + 1));
                    }
                    if multiset(&parsed) != want {
                        let got = multiset(&parsed);
                        let missing: Vec<String> = want.iter().filter(|(k, v)| got.get(*k) != Some(*v)).map(|(k, _)| k[..k.len().min(200)].to_string()).take(2).collect();
                        o.fail("C19/json-lines/records-differ-from-responses", json!({"missing_or_miscounted": missing, "runs_so_far": run + 1}));
                        return o;
                    }
                }
                FormatSpec::Csv { sorted, .. } => {
                    if lines.is_empty() {
                        o.fail("C19/csv/no-header", json!({}));
                        return o;
                    }
                    let header: Vec<String> = lines[0].split(',').map(|s| s.to_string()).collect();
                    let mut names: Vec<String> = columns.iter().map(|(n, _)| n.clone()).collect();
                    let mut hs = header.clone();
                    hs.sort();
                    names.sort();
                    if hs != names {
                        o.fail("C19/csv/header-is-not-the-mapping-keys", json!({"header": header, "mapping_keys": names}));
                        return o;
                    }
                    if *sorted && header != names {
                        o.fail("C19/csv/header-not-sorted", json!({"header": header}));
                        return o;
                    }
                    if lines.len() != want_records + 1 {
                        o.fail(
                            "C19/csv/row-count",
                            json!({"rows": lines.len() - 1, "responses": n_resp, "runs_so_far": run + 1, "header_lines": lines.iter().filter(|l| **l == lines[0]).count()}),
                        );
                        return o;
                    }
                    let mut got: BTreeMap<String, usize> = BTreeMap::new();
                    for (i, l) in lines.iter().enumerate().skip(1) {
                        let cells = split_cells(l);
                        if cells.len() != header.len() {
                            o.fail("C19/csv/row-width-differs-from-header", json!({"row": i, "cells": cells.len(), "header": header.len(), "head": &l[..l.len().min(120)]}));
                            return o;
                        }
                        let key: Vec<String> = cells.iter().map(|c| canon_cell(c)).collect();
                        *got.entry(key.join("\u{1}")).or_insert(0) += 1;
                    }
                    let mut want: BTreeMap<String, usize> = BTreeMap::new();
                    for r in &reference {
                        let key: Vec<String> = header
                            .iter()
                            .map(|h| {
                                let col = columns.iter().find(|(n, _)| n == h).map(|(_, c)| c).unwrap();
                                match eval_col(h, col, r) {
                                    Some(v) => canon_cell(&v.to_string()),
                                    None => String::new(),
                                }
                            })
                            .collect();
                        *want.entry(key.join("\u{1}")).or_insert(0) += run as usize + 1;
                    }
                    if got != want {
                        let missing: Vec<String> = want.iter().filter(|(k, v)| got.get(*k) != Some(*v)).map(|(k, _)| k[..k.len().min(200)].replace('\u{1}', " | ")).take(2).collect();
                        let extra: Vec<String> = got.iter().filter(|(k, v)| want.get(*k) != Some(*v)).map(|(k, _)| k[..k.len().min(200)].replace('\u{1}', " | ")).take(2).collect();
                        o.fail("C19/csv/rows-differ-from-the-mapping-of-the-responses", json!({"header": header, "expected_but_missing": missing, "unexpected": extra}));
                        return o;
                    }
                }
            }
        }
        o
    }
}
