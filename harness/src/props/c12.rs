//! C12 — no query batch can make the application panic, abort or run without bound
use crate::appbuild::build_app;
use crate::batch::*;
use crate::engine::{pick_idx, CaseDir, Outcome, Prop, Tier};
use proptest::prelude::*;
use serde::{Deserialize, Serialize};
use serde_json::{json, Value};
use std::time::Duration;

#[derive(Clone, Debug, Serialize, Deserialize)]
pub struct C12Case {
    pub app: BatchAppSpec,
    pub queries: Vec<Value>,
    pub parallelism: usize,
}

pub struct C12;

pub fn odd_value(i: usize) -> Value {
    match i % 30 {
        // long texts, plain and in multi-byte characters at both byte alignments, a deep and a wide value
        24 => json!("long-ascii-".repeat(300)),
        25 => json!("\u{e9}".repeat(1500)),
        26 => json!(format!("x{}", "\u{e9}".repeat(1500))),
        27 => json!(format!("ab{}", "\u{1F697}".repeat(700))),
        28 => (0..30).fold(json!("deep"), |v, _| json!([v])),
        29 => Value::Object((0..200).map(|k| (format!("key{}", k), json!(k))).collect()),
        0 => Value::Null,
        1 => json!(true),
        2 => json!(false),
        3 => json!(""),
        4 => json!("text"),
        5 => json!("0"),
        6 => json!(0),
        7 => json!(-1),
        8 => json!(1.5),
        9 => json!(1152921504606846976u64),
        10 => json!(-1152921504606846976i64),
        11 => json!(1e30),
        12 => json!(-1e30),
        13 => json!(180.0),
        14 => json!(-180.0),
        15 => json!(90.0),
        16 => json!(-90.0),
        17 => json!([]),
        18 => json!([1]),
        19 => json!({}),
        20 => json!({"a": 1}),
        21 => json!([[]]),
        22 => json!(18446744073709551615u64),
        _ => json!(0.1),
    }
}

#[derive(Clone, Debug)]
pub enum Mutation {
    Delete(u8),
    Retype(u8, u8),
    Add(u8, u8),
    /// degenerate / odd grid sections
    Grid(u8),
    Weights(u8),
    ModelName,
    K(u8),
    WeightFactor(u8),
    SameOd,
}

const EXTRA_KEYS: [&str; 12] = [
    "weights",
    "vehicle_rates",
    "road_classes",
    "vehicle_parameters",
    "query_weight_estimate",
    "state_features",
    "cost_aggregation",
    "k",
    "weight_factor",
    "model_name",
    "starting_soc_percent",
    "w",
];

fn mutate(mut q: Value, m: &Mutation) -> Value {
    let obj = match q.as_object_mut() {
        Some(o) => o,
        None => return q,
    };
    let keys: Vec<String> = obj.keys().cloned().collect();
    match m {
        Mutation::Delete(i) => {
            if !keys.is_empty() {
                obj.remove(&keys[*i as usize % keys.len()]);
            }
        }
        Mutation::Retype(i, v) => {
            if !keys.is_empty() {
                obj.insert(keys[*i as usize % keys.len()].clone(), odd_value(*v as usize));
            }
        }
        Mutation::Add(k, v) => {
            obj.insert(EXTRA_KEYS[*k as usize % EXTRA_KEYS.len()].to_string(), odd_value(*v as usize));
        }
        Mutation::Grid(kind) => {
            let g = match kind % 9 {
                0 => json!({}),
                1 => json!({"a": []}),
                2 => json!({"a": 5}),
                3 => json!({"a": [1, 2], "grid_search": {"b": [1]}}),
                4 => json!(5),
                5 => json!("x"),
                6 => json!([]),
                7 => json!({"a": [1, 2], "b": [], "c": "scalar"}),
                _ => json!({"a": [{"grid_search": {"z": [1]}}]}),
            };
            obj.insert("grid_search".into(), g);
        }
        Mutation::Weights(kind) => {
            let w = match kind % 5 {
                0 => json!({"distance": 0, "time": 0}),
                1 => json!({"no_such_feature": 1.0}),
                2 => json!({"distance": "heavy"}),
                3 => json!({}),
                _ => json!({"distance": -1.0, "time": 1.0}),
            };
            obj.insert("weights".into(), w);
        }
        Mutation::ModelName => {
            obj.insert("model_name".into(), json!("no-such-vehicle"));
        }
        Mutation::K(kind) => {
            let k = match kind % 4 {
                0 => json!(0),
                1 => json!(1),
                2 => json!(1152921504606846976u64),
                _ => json!("x"),
            };
            obj.insert("k".into(), k);
        }
        Mutation::WeightFactor(kind) => {
            obj.insert(
                "weight_factor".into(),
                match kind % 3 {
                    0 => json!("fast"),
                    1 => json!(-1.0),
                    _ => json!(1e300),
                },
            );
        }
        Mutation::SameOd => {
            for (a, b) in [("origin_vertex", "destination_vertex"), ("origin_x", "destination_x"), ("origin_y", "destination_y")] {
                if let Some(v) = obj.get(a).cloned() {
                    obj.insert(b.into(), v);
                }
            }
        }
    }
    q
}

fn raw_json() -> impl Strategy<Value = Value> {
    let leaf = prop_oneof![
        Just(Value::Null),
        any::<bool>().prop_map(|b| json!(b)),
        (-1000i64..1000).prop_map(|i| json!(i)),
        (-1000.0f64..1000.0).prop_map(|f| json!(f)),
        "[a-z_]{0,12}".prop_map(|s| json!(s)),
        (0usize..30).prop_map(odd_value),
    ];
    leaf.prop_recursive(3, 24, 4, |inner| {
        prop_oneof![
            proptest::collection::vec(inner.clone(), 0..4).prop_map(Value::Array),
            proptest::collection::vec((prop_oneof!["[a-z_]{1,10}", proptest::sample::select(vec!["origin_vertex", "destination_vertex", "origin_x", "origin_y", "destination_x", "destination_y", "grid_search", "qid", "weights", "w"]).prop_map(|s| s.to_string())], inner), 0..5)
                .prop_map(|kv| Value::Object(kv.into_iter().collect())),
        ]
    })
}

fn mutation_strategy() -> impl Strategy<Value = Mutation> {
    prop_oneof![
        3 => any::<u8>().prop_map(Mutation::Delete),
        5 => (any::<u8>(), any::<u8>()).prop_map(|(a, b)| Mutation::Retype(a, b)),
        3 => (any::<u8>(), any::<u8>()).prop_map(|(a, b)| Mutation::Add(a, b)),
        3 => any::<u8>().prop_map(Mutation::Grid),
        2 => any::<u8>().prop_map(Mutation::Weights),
        1 => Just(Mutation::ModelName),
        1 => any::<u8>().prop_map(Mutation::K),
        1 => any::<u8>().prop_map(Mutation::WeightFactor),
        1 => Just(Mutation::SameOd),
    ]
}

fn strip_for_echo(q: &serde_json::Map<String, Value>) -> Vec<(String, Value)> {
    // keys that the pipeline may legitimately overwrite or remove
    let skip = ["grid_search", "injected", "origin_vertex", "destination_vertex", "origin_edge", "destination_edge", "query_weight_estimate"];
    let mut grid_keys: Vec<String> = vec![];
    if let Some(g) = q.get("grid_search").and_then(|g| g.as_object()) {
        for (k, v) in g {
            if let Some(a) = v.as_array() {
                grid_keys.push(k.clone());
                for c in a {
                    if let Some(o) = c.as_object() {
                        grid_keys.extend(o.keys().cloned());
                    }
                }
            }
        }
    }
    q.iter()
        .filter(|(k, _)| !skip.contains(&k.as_str()) && !grid_keys.contains(k))
        .map(|(k, v)| (k.clone(), v.clone()))
        .collect()
}

impl Prop for C12 {
    type Case = C12Case;
    fn id(&self) -> &'static str {
        "C12"
    }
    fn rule(&self) -> String {
        "generated: batches of 0-6 values against 8 application configurations built from files (ids; grid; vertex matching before/after grid with haversine balancer; inject + grid + custom balancer; edge orientation with edge matching; speed model with iteration limit; single-via k-shortest paths); each value is arbitrary JSON (depth <= 3, biased to query keys) or a valid query with 0-3 mutations (delete a field; retype to one of 30 odd values incl. null/bool/strings/texts of 3000 bytes in multi-byte characters/a 30-deep array/a 200-key object/negative/2^60/1e30/boundary coordinates/arrays/objects; add odd optional fields; 9 degenerate grid sections incl. {}, empty arrays, scalars, nested grid keys; zero/unknown/ill-typed weights; unknown model name; k in {0,1,2^60,text}; odd weight factors; identical origin and destination). Oracle: no panic, no unbounded run (watchdog with re-run), run returns Ok, response count from the JSON-level reference of the input pipeline, every response an object with error or result that echoes its request, batch = run-alone multiset. non-trivial = batch with at least one malformed and one valid query".to_string()
    }
    fn cases(&self, tier: Tier) -> u32 {
        tier.pick(30_000, 1_000_000)
    }
    fn unbounded_is_violation(&self) -> bool {
        true
    }
    fn case_timeout(&self) -> Duration {
        Duration::from_secs(20)
    }
    fn assumptions(&self) -> Vec<String> {
        vec![
            "run-level configuration (parallelism 0) is not a query and is outside the quantifier".into(),
            "queries that are not JSON objects must be echoed either as the response's request or inside the error text".into(),
            "a case exceeding 20 s (typical: < 5 ms) is re-run alone with 40 s; only then it is reported as unbounded".into(),
        ]
    }
    fn strategy(&self, _tier: Tier) -> BoxedStrategy<C12Case> {
        batch_app_strategy(vec![0, 1, 2, 3, 4, 5, 6, 7])
            .prop_flat_map(|app| {
                let app2 = app.clone();
                let q = prop_oneof![
                    2 => raw_json(),
                    7 => (query_strategy(), proptest::collection::vec(mutation_strategy(), 0..=3), any::<u16>()).prop_map(move |(spec, muts, qid)| {
                        let mut v = query_json(&app2, &spec, qid as usize % 1000);
                        for m in &muts {
                            v = mutate(v, m);
                        }
                        v
                    }),
                ];
                (Just(app), proptest::collection::vec(q, 0..=6), 1usize..=16)
            })
            .prop_map(|(app, queries, parallelism)| C12Case {
                app,
                queries,
                parallelism,
            })
            .boxed()
    }
    fn check(&self, c: &C12Case) -> Outcome {
        let mut o = Outcome::new();
        o.label(format!("config-kind-{}", c.app.kind));
        o.label(format!("batch-size-{}", c.queries.len()));
        let dir = CaseDir::new();
        let (app, _files) = match build_app(&c.app.app_spec(), &dir) {
            Ok(a) => a,
            Err(e) => {
                o.fail("C12/app-build-error", json!({"error": e}));
                return o;
            }
        };
        let ksp = c.app.kind == 7;
        // run alone, then the batch
        let mut alone: Vec<Value> = vec![];
        let mut any_error = false;
        let mut any_success = false;
        let mut count_known = true;
        let mut family_dropped = false;
        for q in &c.queries {
            let r = match run_app(&app, vec![q.clone()], Some(1)) {
                Ok(r) => r,
                Err(e) => {
                    o.fail("C12/run-returned-error-for-the-whole-call", json!({"query": q, "error": e}));
                    return o;
                }
            };
            match expansion_json(&c.app, q) {
                None => {
                    count_known = false;
                    o.label("count-not-judged");
                    if r.is_empty() {
                        o.fail("C12/query-without-any-response", json!({"query": q}));
                        return o;
                    }
                }
                Some(ex) => {
                    if r.len() != ex.correct {
                        if r.len() == ex.family_dropped && ex.family_dropped != ex.correct {
                            family_dropped = true;
                            o.fail(
                                "C12/input-pipeline/sibling-failure-drops-family",
                                json!({"query": q, "responses": r.len(), "expected_one_per_sibling": ex.correct, "config_kind": c.app.kind}),
                            );
                        } else {
                            o.fail(
                                "C12/response-count-for-query",
                                json!({"query": q, "responses": r.len(), "expected": ex.correct, "config_kind": c.app.kind,
                                       "first_responses": r.iter().take(2).collect::<Vec<_>>()}),
                            );
                            return o;
                        }
                    }
                }
            }
            for resp in &r {
                let obj = match resp.as_object() {
                    Some(ob) => ob,
                    None => {
                        o.fail("C12/response-is-not-an-object", json!({"query": q, "response": resp}));
                        return o;
                    }
                };
                let err = obj.get("error");
                if err.is_some() {
                    any_error = true;
                } else {
                    any_success = true;
                    if obj.get("request").is_none() {
                        o.fail("C12/success-without-request", json!({"query": q, "response": resp}));
                        return o;
                    }
                }
                // echo
                match q.as_object() {
                    Some(qo) => {
                        let req = obj.get("request").and_then(|x| x.as_object());
                        let ok = match req {
                            Some(req) => strip_for_echo(qo).iter().all(|(k, v)| req.get(k) == Some(v)),
                            None => false,
                        };
                        if !ok {
                            o.fail("C12/response-does-not-echo-its-request", json!({"query": q, "response": resp}));
                            return o;
                        }
                    }
                    None => {
                        // not an object: an error that carries the value as its request (or shows it
                        // in its text)
                        let text = err.map(|e| e.to_string()).unwrap_or_default();
                        let shown = obj.get("request") == Some(q)
                            || match q {
                                Value::String(s) => text.contains(s.as_str()),
                                other => text.contains(&other.to_string()),
                            };
                        if err.is_none() || !shown {
                            o.fail("C12/non-object-query-not-answered-with-an-echoing-error", json!({"query": q, "response": resp}));
                            return o;
                        }
                    }
                }
            }
            alone.extend(r);
        }
        o.nontrivial = any_error && any_success;
        o.label_if(c.queries.is_empty(), "empty-batch");
        let batch = match run_app(&app, c.queries.clone(), Some(c.parallelism)) {
            Ok(r) => r,
            Err(e) => {
                o.fail("C12/run-returned-error-for-the-whole-call", json!({"queries": c.queries, "error": e}));
                return o;
            }
        };
        if batch.len() != alone.len() {
            o.fail(
                "C12/batch-response-count-differs-from-run-alone",
                json!({"batch": batch.len(), "alone": alone.len(), "queries": c.queries, "count_known": count_known, "family_dropped": family_dropped}),
            );
            return o;
        }
        if !ksp {
            let (ma, mb) = (multiset(&alone), multiset(&batch));
            if ma != mb {
                let only_a: Vec<String> = ma.iter().filter(|(k, v)| mb.get(*k) != Some(*v)).map(|(k, _)| k[..k.len().min(300)].to_string()).take(2).collect();
                let only_b: Vec<String> = mb.iter().filter(|(k, v)| ma.get(*k) != Some(*v)).map(|(k, _)| k[..k.len().min(300)].to_string()).take(2).collect();
                o.fail(
                    "C12/queries-answered-differently-in-a-batch",
                    json!({"only_alone": only_a, "only_batch": only_b, "parallelism": c.parallelism}),
                );
            }
        } else {
            let ea = alone.iter().filter(|r| is_error(r)).count();
            let eb = batch.iter().filter(|r| is_error(r)).count();
            if ea != eb {
                o.fail("C12/queries-answered-differently-in-a-batch", json!({"errors_alone": ea, "errors_batch": eb}));
            }
        }
        let _ = pick_idx(0, 1);
        o
    }
}
