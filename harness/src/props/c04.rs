//! C04 — routes and trees never use an edge or turn the query is forbidden to use
use crate::engine::{pick_idx, Outcome, Prop, Tier};
use crate::gen::*;
use crate::refmodel::*;
use crate::searchrun::*;
use crate::simodel::*;
use proptest::prelude::*;
use routee_compass_core::algorithm::search::search_instance::SearchInstance;
use routee_compass_core::algorithm::search::util::edge_cut_frontier_model::EdgeCutFrontierModel;
use routee_compass_core::model::frontier::frontier_model::FrontierModel;
use routee_compass_core::model::frontier::frontier_model_service::FrontierModelService;
use routee_compass_core::model::network::EdgeId;
use serde::{Deserialize, Serialize};
use serde_json::{json, Value};
use std::collections::{HashMap, HashSet};
use std::sync::Arc;

#[derive(Clone, Debug, Serialize, Deserialize)]
pub struct ClassSpec {
    pub per_edge: Vec<u8>,
    /// allowed classes in the query
    pub allowed: Vec<u8>,
    /// give them as mapped names instead of numbers
    pub by_name: bool,
}

#[derive(Clone, Debug, Serialize, Deserialize)]
pub struct RowSpec {
    pub edge: usize,
    /// 0 total weight, 1 weight per axle, 2 length, 3 width, 4 height, 5 trailer length
    pub kind: u8,
    pub unit: u8,
    /// restriction value = vehicle value (in the row's unit) x ratio; ratios within 1 % of 1 are not generated
    pub ratio: f64,
}

#[derive(Clone, Debug, Serialize, Deserialize)]
pub struct VehicleSpec {
    pub height: (f64, u8),
    pub width: (f64, u8),
    pub total_length: (f64, u8),
    pub trailer_length: (f64, u8),
    pub total_weight: (f64, u8),
    pub axles: u8,
}

#[derive(Clone, Debug, Serialize, Deserialize)]
pub struct C04Case {
    pub net: NetCase,
    pub classes: Option<ClassSpec>,
    pub rows: Option<(Vec<RowSpec>, VehicleSpec)>,
    pub turns: Vec<(usize, usize)>,
    /// wrap even a single model into `combined`
    pub force_combined: bool,
    /// edges cut through EdgeCutFrontierModel (as an alternative-route search does)
    pub cut: Vec<usize>,
    pub alg: AlgSpec,
    pub edge_oriented: bool,
    pub o: usize,
    pub d: Option<usize>,
    /// build the frontier service through the application's builders from configuration JSON and
    /// input files (road class file, restriction CSV, turn CSV) instead of in memory
    #[serde(default)]
    pub via_files: bool,
    /// (with `via_files`, inside `combined`) spread the restriction rows / the turn pairs over
    /// two models of the same type with one input file each
    #[serde(default)]
    pub split: bool,
    /// the query writes number_of_axles as a JSON float (2.0): a vehicle description the
    /// parser refuses - the query may be rejected, but never answered without the restrictions
    #[serde(default)]
    pub axles_as_float: bool,
    /// before the judged query, the same *service* answers another vehicle (everything a
    /// hundredth of the size) over all edges: nothing of it may carry over
    #[serde(default)]
    pub small_vehicle_first: bool,
}

pub struct C04;

pub const KIND_NAMES: [&str; 6] = [
    "maximum_total_weight",
    "maximum_weight_per_axle",
    "maximum_length",
    "maximum_width",
    "maximum_height",
    "maximum_trailer_length",
];
pub const DIST_NAMES: [&str; 5] = ["meters", "kilometers", "miles", "inches", "feet"];
pub const WEIGHT_NAMES: [&str; 3] = ["pounds", "tons", "kg"];
const CLASS_NAMES: [&str; 6] = ["motorway", "trunk", "primary", "secondary", "residential", "track"];
/// the class ids written to the class file / sent in numeric queries: the whole u8 range incl.
/// ids that collide modulo 64 and 128 (the generated classes 0..5 index this table)
const CLASS_IDS: [u8; 6] = [0, 1, 64, 65, 129, 255];

pub fn vehicle_value(v: &VehicleSpec, kind: u8) -> (f64, u8, bool) {
    // (value, unit, is weight)
    match kind {
        0 => (v.total_weight.0, v.total_weight.1, true),
        1 => (v.total_weight.0 / v.axles.max(1) as f64, v.total_weight.1, true),
        2 => (v.total_length.0, v.total_length.1, false),
        3 => (v.width.0, v.width.1, false),
        4 => (v.height.0, v.height.1, false),
        _ => (v.trailer_length.0, v.trailer_length.1, false),
    }
}

/// vehicle value expressed in the row's unit (reference factors)
pub fn vehicle_in_row_unit(v: &VehicleSpec, row: &RowSpec) -> f64 {
    let (val, unit, is_w) = vehicle_value(v, row.kind);
    if is_w {
        conv_weight(val, WEIGHT_UNITS[unit as usize % 3], WEIGHT_UNITS[row.unit as usize % 3])
    } else {
        conv_dist(val, DISTANCE_UNITS[unit as usize % 5], DISTANCE_UNITS[row.unit as usize % 5])
    }
}

pub fn row_value(v: &VehicleSpec, row: &RowSpec) -> f64 {
    vehicle_in_row_unit(v, row) * row.ratio
}

impl C04Case {
    fn query(&self) -> Value {
        let mut q = serde_json::Map::new();
        if let Some(c) = &self.classes {
            if c.by_name {
                q.insert(
                    "road_classes".into(),
                    json!(c.allowed.iter().map(|k| CLASS_NAMES[*k as usize % 6]).collect::<Vec<_>>()),
                );
            } else {
                q.insert("road_classes".into(), json!(c.allowed.iter().map(|k| CLASS_IDS[*k as usize % 6]).collect::<Vec<_>>()));
            }
        }
        if let Some((_, v)) = &self.rows {
            q.insert(
                "vehicle_parameters".into(),
                json!({
                    "height": [v.height.0, DIST_NAMES[v.height.1 as usize % 5]],
                    "width": [v.width.0, DIST_NAMES[v.width.1 as usize % 5]],
                    "total_length": [v.total_length.0, DIST_NAMES[v.total_length.1 as usize % 5]],
                    "trailer_length": [v.trailer_length.0, DIST_NAMES[v.trailer_length.1 as usize % 5]],
                    "total_weight": [v.total_weight.0, WEIGHT_NAMES[v.total_weight.1 as usize % 3]],
                    "number_of_axles": if self.axles_as_float { json!(v.axles as f64) } else { json!(v.axles) },
                }),
            );
        }
        Value::Object(q)
    }
    /// independent predicate: may this edge be used?
    fn ref_allowed(&self, e: usize) -> bool {
        if let Some(c) = &self.classes {
            if !c.allowed.contains(&c.per_edge[e]) {
                return false;
            }
        }
        if let Some((rows, _v)) = &self.rows {
            for r in rows.iter().filter(|r| r.edge == e) {
                // vehicle <= restriction  <=>  ratio >= 1
                if r.ratio < 1.0 {
                    return false;
                }
            }
        }
        !self.cut.contains(&e)
    }
    fn turn_restricted(&self, p: usize, e: usize) -> bool {
        self.turns.contains(&(p, e))
    }
    /// the configuration-and-files route: CompassAppBuilder::build_frontier_model_service
    fn build_service_from_files(&self, dir: &crate::engine::CaseDir) -> Result<Option<Arc<dyn FrontierModelService>>, String> {
        use crate::appbuild::write_text;
        let mut models: Vec<Value> = vec![];
        let path = |name: &str| dir.file(name).to_string_lossy().to_string();
        if let Some(c) = &self.classes {
            let text: String = c.per_edge.iter().map(|k| format!("{}\n", CLASS_IDS[*k as usize % 6])).collect();
            write_text(&dir.file("classes.txt"), &text, false).map_err(|e| e.to_string())?;
            let mut m = serde_json::Map::new();
            m.insert("type".into(), json!("road_class"));
            m.insert("road_class_input_file".into(), json!(path("classes.txt")));
            if c.by_name {
                let mapping: HashMap<String, u8> = (0..6usize).map(|k| (CLASS_NAMES[k].to_string(), CLASS_IDS[k])).collect();
                m.insert("road_class_parser".into(), json!({"mapping": mapping}));
            }
            models.push(Value::Object(m));
        }
        if let Some((rows, v)) = &self.rows {
            let line = |r: &RowSpec| {
                let is_w = r.kind <= 1;
                format!(
                    "{},{},{},{}\n",
                    r.edge,
                    KIND_NAMES[r.kind as usize % 6],
                    row_value(v, r),
                    if is_w { WEIGHT_NAMES[r.unit as usize % 3] } else { DIST_NAMES[r.unit as usize % 5] }
                )
            };
            let header = "edge_id,restriction_name,restriction_value,restriction_unit\n";
            let parts: Vec<&[RowSpec]> = if self.split && rows.len() >= 2 {
                let (a, b) = rows.split_at(rows.len() / 2);
                vec![a, b]
            } else {
                vec![&rows[..]]
            };
            for (i, part) in parts.iter().enumerate() {
                let name = format!("restrictions-{}.csv", i);
                let text: String = std::iter::once(header.to_string()).chain(part.iter().map(line)).collect();
                write_text(&dir.file(&name), &text, false).map_err(|e| e.to_string())?;
                models.push(json!({"type": "vehicle_restriction", "vehicle_restriction_input_file": path(&name)}));
            }
        }
        if !self.turns.is_empty() {
            let parts: Vec<&[(usize, usize)]> = if self.split && self.turns.len() >= 2 {
                let (a, b) = self.turns.split_at(self.turns.len() / 2);
                vec![a, b]
            } else {
                vec![&self.turns[..]]
            };
            for (i, part) in parts.iter().enumerate() {
                let name = format!("turns-{}.csv", i);
                let text: String = std::iter::once("prev_edge_id,next_edge_id\n".to_string())
                    .chain(part.iter().map(|(a, b)| format!("{},{}\n", a, b)))
                    .collect();
                write_text(&dir.file(&name), &text, false).map_err(|e| e.to_string())?;
                models.push(json!({"type": "turn_restriction", "turn_restriction_input_file": path(&name)}));
            }
        }
        if models.is_empty() {
            return Ok(None);
        }
        let cfg = if models.len() == 1 && !self.force_combined {
            models.remove(0)
        } else {
            json!({"type": "combined", "models": models})
        };
        thread_local! {
            static BUILDER: routee_compass::app::compass::config::compass_app_builder::CompassAppBuilder =
                routee_compass::app::compass::config::compass_app_builder::CompassAppBuilder::default();
        }
        BUILDER.with(|builder| {
            builder
                .build_frontier_model_service(&cfg)
                .map(Some)
                .map_err(|e| format!("{} (configuration {})", e, cfg))
        })
    }
    fn build_frontier(&self, state_model: Arc<routee_compass_core::model::state::state_model::StateModel>) -> Result<Arc<dyn FrontierModel>, String> {
        // always through the builders (the services' struct literals are not used: a change of
        // their fields must not break the harness build); `via_files` is kept for old replay files
        {
            let dir = crate::engine::CaseDir::new();
            let q = self.query();
            let model: Arc<dyn FrontierModel> = match self.build_service_from_files(&dir)? {
                Some(svc) => {
                    if let (true, Some(_)) = (self.small_vehicle_first, &self.rows) {
                        let mut small = self.clone();
                        small.axles_as_float = false;
                        if let Some((_, sv)) = small.rows.as_mut() {
                            for d in [&mut sv.height, &mut sv.width, &mut sv.total_length, &mut sv.trailer_length] {
                                d.0 *= 0.01;
                            }
                            sv.total_weight.0 *= 0.01;
                        }
                        if let Ok(m0) = svc.build(&small.query(), state_model.clone()) {
                            if let Ok(init) = state_model.initial_state() {
                                for (e, (src, dst, len)) in self.net.edges.iter().enumerate() {
                                    let edge = routee_compass_core::model::network::Edge::new(e, *src, *dst, *len);
                                    let _ = m0.valid_frontier(&edge, &init, None, &state_model);
                                }
                            }
                        }
                    }
                    svc.build(&q, state_model).map_err(|e| e.to_string())?
                }
                None => Arc::new(routee_compass_core::model::frontier::default::no_restriction::NoRestriction {}),
            };
            return if self.cut.is_empty() {
                Ok(model)
            } else {
                Ok(Arc::new(EdgeCutFrontierModel::new(model, self.cut.iter().map(|e| EdgeId(*e)).collect())))
            };
        }
    }
    fn search_case(&self) -> SearchCase {
        SearchCase {
            spec: SiSpec {
                net: self.net.clone(),
                trav: TravSpec::Distance { unit: 0 },
                access: None,
                cost: CostSpec::distance_only(),
                state: StateSpec {
                    dist_unit: 0,
                    dist_init: 0.0,
                    time_unit: 0,
                    time_init: 0.0,
                },
                allowed: None,
                restricted_turns: vec![],
            },
            alg: self.alg.clone(),
            edge_oriented: self.edge_oriented,
            reverse: false,
            o: self.o,
            d: self.d,
            query_wf: None,
            query_k: None,
        }
    }
}

pub fn vehicle_strategy() -> impl Strategy<Value = VehicleSpec> {
    let len = || ((1.0f64..30.0).prop_map(|v| (v * 8.0).round() / 8.0), 0u8..5);
    (
        len(),
        len(),
        len(),
        len(),
        ((500.0f64..40000.0).prop_map(|v| v.round()), 0u8..3),
        1u8..7,
    )
        .prop_map(|(height, width, total_length, trailer_length, total_weight, axles)| VehicleSpec {
            height,
            width,
            total_length,
            trailer_length,
            total_weight,
            axles,
        })
}

impl Prop for C04 {
    type Case = C04Case;
    fn id(&self) -> &'static str {
        "C04"
    }
    fn rule(&self) -> String {
        "generated: network x road-class table with per-query allowed set (numbers or mapped names) x vehicle-restriction rows (6 kinds, 5 distance / 3 weight units, built through the CSV row parser, values pushed >= 1 % away from the vehicle's value) with vehicle parameters in other units x restricted-turn pairs x any combination through the combined model x class ids over the whole u8 range (0, 1, 64, 65, 129, 255) x a vehicle description the parser refuses (axles as a float: rejected or judged, never unrestricted) x another, smaller vehicle answered first by the same service x optional cut edges (EdgeCutFrontierModel) x all algorithms x vertex/edge orientation x optional destination; the real application-level frontier models are built either through the application's builders from configuration JSON and generated input files (class file, restriction CSV with repeated rows per edge and kind, turn CSV; same-type models split over two files inside combined) or in memory from their services. Oracle: independent allowed(edge) predicate with SI unit factors on every route edge and tree branch, and the restricted-pair list on every consecutive route pair. non-trivial = the unrestricted search's route uses a forbidden edge or turn (the restriction changed the answer)".to_string()
    }
    fn cases(&self, tier: Tier) -> u32 {
        tier.pick(100_000, 2_000_000)
    }
    fn assumptions(&self) -> Vec<String> {
        vec![
            "user-supplied origin/destination edges of edge-oriented queries are exempt from the edge predicates, not from the turn predicate".into(),
            "restriction values within 1 % of the vehicle's value are not generated (unit-constant differences could flip them)".into(),
        ]
    }
    fn strategy(&self, tier: Tier) -> BoxedStrategy<C04Case> {
        let max_n = tier.pick(12, 40);
        net_free(max_n)
            .prop_flat_map(|net| {
                let m = net.m().max(1);
                let classes = (
                    proptest::collection::vec(0u8..6, m),
                    prop_oneof![1 => Just(vec![]), 12 => proptest::collection::vec(0u8..6, 1..6)],
                    any::<bool>(),
                )
                    .prop_map(|(per_edge, allowed, by_name)| ClassSpec {
                        per_edge,
                        allowed,
                        by_name,
                    });
                let row = (
                    any::<u16>(),
                    0u8..6,
                    0u8..5,
                    prop_oneof![(0.5f64..0.99), (1.01f64..2.0)],
                )
                    .prop_map(move |(e, kind, unit, ratio)| RowSpec {
                        edge: pick_idx(e, m),
                        kind,
                        unit,
                        ratio: (ratio * 1000.0).round() / 1000.0,
                    });
                (
                    Just(net),
                    proptest::option::weighted(0.5, classes),
                    proptest::option::weighted(
                        0.5,
                        (
                            proptest::collection::vec(row, 0..8),
                            vehicle_strategy(),
                            // a second row of the same kind on the same edge, placed before or after
                            proptest::option::weighted(0.4, (any::<u16>(), prop_oneof![(0.5f64..0.99), (1.01f64..2.0)], 0u8..5, any::<bool>())),
                        )
                            .prop_map(|(mut rows, v, dup)| {
                                if let (Some((i, ratio, unit, before)), false) = (dup, rows.is_empty()) {
                                    let i = pick_idx(i, rows.len());
                                    let mut r = rows[i].clone();
                                    r.ratio = (ratio * 1000.0).round() / 1000.0;
                                    r.unit = unit;
                                    if before {
                                        rows.insert(i, r);
                                    } else {
                                        rows.push(r);
                                    }
                                }
                                (rows, v)
                            }),
                    ),
                    prop_oneof![1 => Just(vec![]), 1 => restricted_turns_strategy(m)],
                    any::<bool>(),
                    prop_oneof![3 => Just(vec![]), 1 => proptest::collection::vec(any::<u16>(), 1..4).prop_map(move |v| v.into_iter().map(|e| pick_idx(e, m)).collect())],
                    any_alg(),
                    (any::<bool>(), any::<u16>(), any::<u16>(), proptest::bool::weighted(0.85), proptest::bool::weighted(0.15), any::<bool>(), proptest::bool::weighted(0.1), proptest::bool::weighted(0.3)),
                )
            })
            .prop_map(|(net, classes, rows, turns, force_combined, cut, alg, misc)| {
                let (edge_o, a, b, with_dest, via_files, split, axles_as_float, small_vehicle_first) = misc;
                let n = net.n();
                let m = net.m();
                let edge_oriented = edge_o && m >= 2;
                let (o, d) = if edge_oriented { od_pair(m, a, b) } else { od_pair(n, a, b) };
                let d = if with_dest || alg.is_ksp() { Some(d) } else { None };
                let (classes, rows, turns, cut) = if m == 0 {
                    (None, None, vec![], vec![])
                } else {
                    (classes, rows, turns, cut)
                };
                C04Case {
                    net,
                    classes,
                    rows,
                    turns,
                    force_combined,
                    cut,
                    alg,
                    edge_oriented,
                    o,
                    d,
                    via_files,
                    split,
                    axles_as_float,
                    small_vehicle_first,
                }
            })
            .boxed()
    }
    fn check(&self, case: &C04Case) -> Outcome {
        let mut o = Outcome::new();
        let sc = case.search_case();
        let g = case.net.ref_graph();
        let alg = case.alg.name().replace('*', "-star");
        o.label(format!("alg-{}", alg));
        o.label(if case.edge_oriented { "edge-oriented" } else { "vertex-oriented" });
        o.label_if(case.classes.is_some(), "road-classes");
        o.label_if(case.classes.as_ref().map(|c| c.by_name).unwrap_or(false), "road-classes-by-name");
        o.label_if(case.rows.is_some(), "vehicle-restrictions");
        o.label_if(!case.turns.is_empty(), "turn-restrictions");
        o.label_if(!case.cut.is_empty(), "cut-edges");
        o.label_if(case.via_files, "built-from-configuration-and-files");
        o.label_if(case.via_files && case.split, "same-type-models-split-over-two-files");
        o.label_if(case.classes.as_ref().map(|c| c.allowed.is_empty()).unwrap_or(false), "empty-allowed-class-set");
        let n_models = case.classes.is_some() as usize + case.rows.is_some() as usize + (!case.turns.is_empty()) as usize;
        o.label_if(n_models >= 2 || (n_models == 1 && case.force_combined), "combined");
        if let Some((rows, _)) = &case.rows {
            for r in rows {
                o.label(format!("restriction-{}", KIND_NAMES[r.kind as usize % 6]));
            }
        }
        let base = match build_si(&sc.spec, BuildOpts::default()) {
            Ok(b) => b.si,
            Err(_) => return o,
        };
        o.label_if(case.axles_as_float && case.rows.is_some(), "axles-written-as-float");
        o.label_if(case.small_vehicle_first && case.rows.is_some(), "another-vehicle-first-on-the-same-service");
        let frontier = match case.build_frontier(base.state_model.clone()) {
            Ok(f) => f,
            Err(_) if case.axles_as_float && case.rows.is_some() => {
                o.label("query-with-unreadable-vehicle-rejected");
                return o;
            }
            Err(e) => {
                o.fail("C04/frontier-model/build-error", json!({"error": e, "query": case.query()}));
                return o;
            }
        };
        let counting = Arc::new(CountingFrontier::new(frontier));
        let si = SearchInstance {
            directed_graph: base.directed_graph.clone(),
            state_model: base.state_model.clone(),
            traversal_model: base.traversal_model.clone(),
            access_model: base.access_model.clone(),
            cost_model: base.cost_model.clone(),
            frontier_model: counting.clone(),
            termination_model: base.termination_model.clone(),
        };
        // Yen runs in the helper process, which rebuilds from a SiSpec only: translate the
        // restrictions into the harness frontier for it (the application-level models are
        // exercised by every other algorithm)
        let res = if case.alg.is_yens() {
            let allowed: Vec<bool> = (0..g.m()).map(|e| case.ref_allowed(e)).collect();
            let mut sc2 = sc.clone();
            sc2.spec.allowed = Some(allowed);
            sc2.spec.restricted_turns = case.turns.clone();
            let b2 = match build_si(&sc2.spec, BuildOpts::default()) {
                Ok(b) => b,
                Err(_) => return o,
            };
            run_search(&sc2, &b2.si)
        } else {
            run_search(&sc, &si)
        };
        let res = match res {
            RunOutcome::Done(Ok(r)) => r,
            RunOutcome::Done(Err(e)) => {
                o.label(e.label());
                return o;
            }
            _ => return o,
        };
        let calls = counting.take();
        let exempt = |e: usize| case.edge_oriented && (e == case.o || Some(e) == case.d);
        let prefix = if case.alg.is_yens() { "C04/yens".to_string() } else { format!("C04/{}", alg) };
        for (i, route) in res.routes.iter().enumerate() {
            let ids = route_ids(route);
            if ids.iter().any(|e| *e >= g.m()) {
                continue;
            }
            for e in &ids {
                if !case.ref_allowed(*e) && !exempt(*e) {
                    o.fail(
                        format!("{}/route-uses-forbidden-edge", prefix),
                        json!({"route_index": i, "route": ids, "edge": e, "query": case.query(),
                               "class": case.classes.as_ref().map(|c| c.per_edge[*e]),
                               "rows": case.rows.as_ref().map(|(r, v)| r.iter().filter(|r| r.edge == *e).map(|r| json!({"kind": KIND_NAMES[r.kind as usize % 6], "unit": r.unit, "value": row_value(v, r), "vehicle_in_row_unit": vehicle_in_row_unit(v, r)})).collect::<Vec<_>>()),
                               "cut": case.cut}),
                    );
                    return o;
                }
            }
            for (k, w) in ids.windows(2).enumerate() {
                if case.turn_restricted(w[0], w[1]) {
                    // boundary turns of edge-oriented queries are a listed finding
                    let boundary = case.edge_oriented && (k == 0 || k + 2 == ids.len());
                    // did the search re-open the turn's vertex (listed finding)?
                    let v = g.edges[w[1]].src;
                    let mut prevs = HashSet::new();
                    for (ce, cp) in &calls {
                        if g.edges[*ce].src == v && cp.map(|p| g.edges[p].dst == v).unwrap_or(true) {
                            prevs.insert(*cp);
                        }
                    }
                    let sig = if boundary {
                        "C04/edge-oriented-boundary-turn".to_string()
                    } else if prevs.len() >= 2 && heuristic_in_use(&case.alg, None) && !case.alg.is_yens() {
                        "C04/reopened-vertex/restricted-turn-on-route".to_string()
                    } else {
                        format!("{}/route-takes-restricted-turn", prefix)
                    };
                    o.fail(sig, json!({"route_index": i, "route": ids, "turn": [w[0], w[1]], "restricted_turns": case.turns}));
                    return o;
                }
            }
        }
        for (ti, tree) in res.trees.iter().enumerate() {
            for b in tree {
                let e = b.et.edge_id.0;
                if e < g.m() && !case.ref_allowed(e) && !exempt(e) {
                    o.fail(
                        format!("{}/tree-uses-forbidden-edge", prefix),
                        json!({"tree_index": ti, "vertex": b.vertex, "edge": e, "query": case.query()}),
                    );
                    return o;
                }
            }
        }
        // did the restriction change the answer?
        if n_models > 0 || !case.cut.is_empty() {
            if let Ok(free) = run_plain(
                &SearchCase {
                    alg: AlgSpec::Dijkstra,
                    ..sc.clone()
                },
                &base,
            ) {
                if let Some(r) = free.routes.first() {
                    let ids = route_ids(r);
                    let uses_forbidden = ids.iter().any(|e| !case.ref_allowed(*e) && !exempt(*e))
                        || ids.windows(2).any(|w| case.turn_restricted(w[0], w[1]));
                    o.nontrivial = uses_forbidden;
                    o.label_if(uses_forbidden, "restriction-changed-the-answer");
                }
            }
        }
        o
    }
}
