//! C08 — vehicle energy and battery state follow the powertrain model along a route
use crate::engine::{Outcome, Prop, Tier};
use crate::props::c14::{model_path, model_rate_unit};
use crate::refmodel::*;
use proptest::prelude::*;
use routee_compass_core::model::network::{Edge, Vertex};
use routee_compass_core::model::state::state_model::StateModel;
use routee_compass_core::model::traversal::default::speed_traversal_engine::SpeedTraversalEngine;
use routee_compass_core::model::traversal::default::speed_traversal_service::SpeedLookupService;
use routee_compass_core::model::traversal::traversal_model::TraversalModel;
use routee_compass_core::model::traversal::traversal_model_service::TraversalModelService;
use routee_compass_core::model::unit::as_f64::AsF64;
use routee_compass_core::model::unit::{Energy, EnergyRateUnit, EnergyUnit, Grade, GradeUnit, Speed, SpeedUnit};
use routee_compass_core::util::cache_policy::float_cache_policy::{FloatCachePolicy, FloatCachePolicyConfig};
use routee_compass_core::util::geo::haversine;
use routee_compass_powertrain::routee::energy_model_service::EnergyModelService;
use routee_compass_powertrain::routee::energy_traversal_model::EnergyTraversalModel;
use routee_compass_powertrain::routee::prediction::interpolation::interpolation_speed_grade_model::InterpolationSpeedGradeModel;
use routee_compass_powertrain::routee::prediction::model_type::ModelType;
use routee_compass_powertrain::routee::prediction::prediction_model_ops::find_min_energy_rate;
use routee_compass_powertrain::routee::prediction::{PredictionModel, PredictionModelRecord};
use routee_compass_powertrain::routee::vehicle::default::bev::BEV;
use routee_compass_powertrain::routee::vehicle::default::ice::ICE;
use routee_compass_powertrain::routee::vehicle::default::phev::PHEV;
use routee_compass_powertrain::routee::vehicle::vehicle_type::VehicleType;
use serde::{Deserialize, Serialize};
use serde_json::{json, Value};
use std::collections::HashMap;
use std::sync::{Arc, Mutex, OnceLock};

#[derive(Clone, Debug, Serialize, Deserialize)]
pub enum SocSpec {
    Valid(f64),
    Missing,
    Below,
    Above,
    Text,
    Null,
}

#[derive(Clone, Debug, Serialize, Deserialize)]
pub struct C08Case {
    /// 0 ICE (Camry), 1 BEV (Bolt), 2 PHEV (Volt)
    pub vehicle: u8,
    /// (length m, table speed in the engine's speed unit, grade as decimal)
    pub edges: Vec<(f64, f64, f64)>,
    pub speed_unit: u8,
    pub dist_unit: u8,
    pub time_unit: u8,
    /// energy service: distance unit, and the speed unit it uses to recover the speed
    pub service_dist_unit: u8,
    pub service_speed_unit: u8,
    pub grade_unit: u8,
    pub capacity_kwh: f64,
    pub soc: SocSpec,
    pub adjustment: Option<f64>,
    /// (size, speed precision, grade precision)
    pub cache: Option<(usize, i32, i32)>,
    /// offsets in 1e-3 degrees for the estimate check
    pub estimate: (i16, i16),
    /// declared rate unit of the electric model: 0 kWh/mile, 1 kWh/km, 2 kWh/m (the model is an
    /// input; declaring another distance basis must carry through consistently)
    #[serde(default)]
    pub elec_rate_unit: u8,
    /// time unit named in the energy service's own section (None = the time model's): the time
    /// *feature* stays in the time model's unit, the speed must be recovered from it all the same
    #[serde(default)]
    pub service_time_unit: Option<u8>,
    /// build the vehicle through the application's vehicle builders from configuration JSON
    /// (model file, interpolation section, units, adjustment, cache section) instead of directly
    #[serde(default)]
    pub via_builder: bool,
}

pub struct C08;

type Pm = Arc<dyn PredictionModel>;
static MODELS: OnceLock<Mutex<HashMap<usize, Pm>>> = OnceLock::new();

/// interpolated (continuous) wrapper over bundled model i, native units mph / decimal grade
fn base_model(i: usize) -> Result<Pm, String> {
    let cache = MODELS.get_or_init(|| Mutex::new(HashMap::new()));
    if let Some(m) = cache.lock().unwrap().get(&i) {
        return Ok(m.clone());
    }
    let m = InterpolationSpeedGradeModel::new(
        &model_path(i),
        ModelType::Smartcore,
        format!("model-{}", i),
        SpeedUnit::MilesPerHour,
        (Speed::new(0.0), Speed::new(100.0)),
        51,
        GradeUnit::Decimal,
        (Grade::new(-0.3), Grade::new(0.3)),
        31,
        model_rate_unit(i),
    )
    .map_err(|e| e.to_string())?;
    let m: Pm = Arc::new(m);
    cache.lock().unwrap().insert(i, m.clone());
    Ok(m)
}

fn rate_unit_for(i: usize, elec_rate_unit: u8) -> EnergyRateUnit {
    let native = model_rate_unit(i);
    if native == EnergyRateUnit::KilowattHoursPerMile {
        [
            EnergyRateUnit::KilowattHoursPerMile,
            EnergyRateUnit::KilowattHoursPerKilometer,
            EnergyRateUnit::KilowattHoursPerMeter,
        ][elec_rate_unit as usize % 3]
    } else {
        native
    }
}

fn record(i: usize, adjustment: Option<f64>, cache: Option<(usize, i32, i32)>, elec_rate_unit: u8) -> Result<PredictionModelRecord, String> {
    let pm = base_model(i)?;
    let unit = rate_unit_for(i, elec_rate_unit);
    let ideal = find_min_energy_rate(&pm, &unit).map_err(|e| e.to_string())?;
    let cache = match cache {
        None => None,
        Some((size, ps, pg)) => Some(
            FloatCachePolicy::from_config(FloatCachePolicyConfig {
                cache_size: size,
                key_precisions: vec![ps, pg],
            })
            .map_err(|e| e.to_string())?,
        ),
    };
    Ok(PredictionModelRecord {
        name: format!("model-{}", i),
        prediction_model: pm,
        model_type: ModelType::Smartcore,
        speed_unit: SpeedUnit::MilesPerHour,
        grade_unit: GradeUnit::Decimal,
        energy_rate_unit: unit,
        ideal_energy_rate: ideal,
        real_world_energy_adjustment: adjustment.unwrap_or(1.0),
        cache,
    })
}

/// reference LRU with get-promotes / put-inserts semantics over rounded keys
struct RefLru {
    cap: usize,
    ps: i32,
    pg: i32,
    /// most recently used last
    entries: Vec<((i64, i64), f64)>,
}

impl RefLru {
    fn key(&self, s: f64, g: f64) -> (i64, i64) {
        (
            (s * 10f64.powi(self.ps)).round() as i64,
            (g * 10f64.powi(self.pg)).round() as i64,
        )
    }
    fn get(&mut self, k: (i64, i64)) -> Option<f64> {
        let pos = self.entries.iter().position(|(kk, _)| *kk == k)?;
        let e = self.entries.remove(pos);
        self.entries.push(e);
        Some(e.1)
    }
    fn put(&mut self, k: (i64, i64), v: f64) {
        if let Some(pos) = self.entries.iter().position(|(kk, _)| *kk == k) {
            self.entries.remove(pos);
        }
        self.entries.push((k, v));
        if self.entries.len() > self.cap {
            self.entries.remove(0);
        }
    }
}

fn query_for(c: &C08Case) -> Value {
    let mut q = serde_json::Map::new();
    q.insert("model_name".into(), json!("vehicle"));
    match &c.soc {
        SocSpec::Valid(v) => {
            q.insert("starting_soc_percent".into(), json!(v));
        }
        SocSpec::Missing => {}
        SocSpec::Below => {
            q.insert("starting_soc_percent".into(), json!(-5.0));
        }
        SocSpec::Above => {
            q.insert("starting_soc_percent".into(), json!(100.01));
        }
        SocSpec::Text => {
            q.insert("starting_soc_percent".into(), json!("x"));
        }
        SocSpec::Null => {
            q.insert("starting_soc_percent".into(), Value::Null);
        }
    }
    Value::Object(q)
}

impl Prop for C08 {
    type Case = C08Case;
    fn id(&self) -> &'static str {
        "C08"
    }
    fn rule(&self) -> String {
        "generated histories: 1-12 edges (length 5 m - 20 km, table speed 3-130, grade -0.25..0.25 incl. steep downhill) x vehicle {ICE Camry, BEV Bolt, PHEV Volt} over the bundled models wrapped in a continuous interpolation x battery capacity 0.05-100 kWh x starting charge in [0,100] or invalid (-5, 100.01, text, null, missing) x unit configuration of the time model (3 speed x 5 distance x 4 time units), of the energy service (distance unit, speed unit, a time unit of its own that differs from the time feature's), of the grade table (3 units) x real-world adjustment none or 0.5-2 x vehicle built directly or (1 in 20) through the application's vehicle builders from configuration JSON x prediction cache off or size 1-64 with precisions -1..3. The real EnergyTraversalModel is driven edge by edge; oracle: reference energy = model rate at the reference speed/grade x adjustment x length, charge = clamp(charge - 100 x electric energy / capacity), PHEV mode by charge at entry, additivity, best-case estimate = ideal rate x great-circle distance, with a cache the reference is the range of the model over the bucket of speeds and grades sharing the edge's cache key. non-trivial = >= 3 edges with a negative-energy edge and a clamp at 0 or 100, or a PHEV history that crosses from electric to liquid".to_string()
    }
    fn cases(&self, tier: Tier) -> u32 {
        tier.pick(60_000, 1_500_000)
    }
    fn assumptions(&self) -> Vec<String> {
        vec![
            "the bundled random-forest files are inputs; they are wrapped in the interpolation model so that the response is continuous and a 2e-4 unit-constant difference cannot flip a tree leaf".into(),
            "battery and electric energy are expressed in kWh (the unit of every bundled electric model)".into(),
            "energies are compared at 0.3 % of the edge's energy plus 0.3 % of the flat-road energy of that edge".into(),
        ]
    }
    fn strategy(&self, _tier: Tier) -> BoxedStrategy<C08Case> {
        let edge = (
            (0.7f64..4.3).prop_map(|e| (10f64.powf(e) * 10.0).round() / 10.0),
            (3.0f64..130.0).prop_map(|v| (v * 2.0).round() / 2.0),
            prop_oneof![2 => Just(0.0f64), 5 => (-0.25f64..0.25).prop_map(|g| (g * 200.0).round() / 200.0), 2 => (-0.25f64..-0.05).prop_map(|g| (g * 200.0).round() / 200.0)],
        );
        let soc = prop_oneof![
            10 => (0.0f64..=100.0).prop_map(|v| SocSpec::Valid((v * 4.0).round() / 4.0)),
            2 => Just(SocSpec::Valid(0.0)),
            2 => Just(SocSpec::Valid(100.0)),
            1 => Just(SocSpec::Missing),
            1 => Just(SocSpec::Below),
            1 => Just(SocSpec::Above),
            1 => Just(SocSpec::Text),
            1 => Just(SocSpec::Null),
        ];
        (
            0u8..3,
            proptest::collection::vec(edge, 1..=12),
            (0u8..3, 0u8..5, 0u8..4),
            (0u8..5, proptest::option::weighted(0.3, 0u8..3), 0u8..3),
            prop_oneof![(-1.3f64..2.0).prop_map(|e| (10f64.powf(e) * 100.0).round() / 100.0)],
            soc,
            proptest::option::weighted(0.4, (0.5f64..2.0).prop_map(|v| (v * 20.0).round() / 20.0)),
            proptest::option::weighted(0.35, (1usize..=64, -1i32..=3, -1i32..=3)),
            (-300i16..300, -300i16..300, 0u8..3, proptest::bool::weighted(0.4), proptest::option::weighted(0.4, 0u8..4), proptest::bool::weighted(0.05)),
        )
            .prop_map(|(vehicle, mut edges, (speed_unit, dist_unit, time_unit), (service_dist_unit, ssu, grade_unit), capacity_kwh, soc, adjustment, cache, (e0, e1, elec_rate_unit, pooled, service_time_unit, via_builder))| {
                if pooled {
                    // few distinct (speed, grade) pairs: repeated cache keys along the history
                    for e in edges.iter_mut() {
                        e.1 = 20.0 + 20.0 * ((e.1 / 20.0).floor() % 4.0);
                        e.2 = ((e.2 * 10.0).round() / 10.0).clamp(-0.2, 0.2);
                    }
                }
                let estimate = (e0, e1);
                C08Case {
                vehicle,
                edges,
                speed_unit,
                dist_unit,
                time_unit,
                service_dist_unit,
                service_speed_unit: ssu.unwrap_or(speed_unit),
                grade_unit,
                capacity_kwh,
                soc,
                adjustment,
                cache,
                estimate,
                elec_rate_unit,
                service_time_unit,
                via_builder,
                }
            })
            .boxed()
    }
    fn check(&self, c: &C08Case) -> Outcome {
        let mut o = Outcome::new();
        let vname = ["ice", "bev", "phev"][c.vehicle as usize % 3];
        o.label(format!("vehicle-{}", vname));
        o.label_if(c.cache.is_some(), "prediction-cache");
        o.label_if(c.adjustment.is_some(), "real-world-adjustment");
        o.label_if(c.vehicle % 3 != 0, format!("electric-rate-unit-{}", c.elec_rate_unit % 3));
        let cap = Energy::new(c.capacity_kwh);
        let rec = |i: usize| record(i, c.adjustment, c.cache, c.elec_rate_unit);
        o.label_if(c.via_builder, "vehicle-built-from-configuration");
        let built_from_config: Option<Result<Arc<dyn VehicleType>, String>> = if c.via_builder {
            use routee_compass::app::compass::config::traversal_model::energy_model_vehicle_builders::VehicleBuilder;
            let record_cfg = |i: usize, name: &str| -> Value {
                let mut m = serde_json::Map::new();
                m.insert("name".into(), json!(name));
                m.insert("model_input_file".into(), json!(model_path(i).to_string_lossy().to_string()));
                m.insert(
                    "model_type".into(),
                    json!({"interpolate": {"underlying_model_type": "smartcore",
                        "speed_lower_bound": 0.0, "speed_upper_bound": 100.0, "speed_bins": 51,
                        "grade_lower_bound": -0.3, "grade_upper_bound": 0.3, "grade_bins": 31}}),
                );
                m.insert("speed_unit".into(), json!("miles_per_hour"));
                m.insert("grade_unit".into(), json!("decimal"));
                m.insert("energy_rate_unit".into(), serde_json::to_value(rate_unit_for(i, c.elec_rate_unit)).unwrap_or(Value::Null));
                if let Some(a) = c.adjustment {
                    m.insert("real_world_energy_adjustment".into(), json!(a));
                }
                if let Some((size, ps, pg)) = c.cache {
                    m.insert("float_cache_policy".into(), json!({"cache_size": size, "key_precisions": [ps, pg]}));
                }
                Value::Object(m)
            };
            let (kind, cfg) = match c.vehicle % 3 {
                0 => ("ice", record_cfg(0, "vehicle")),
                1 => {
                    let mut v = record_cfg(1, "vehicle");
                    v["battery_capacity"] = json!(c.capacity_kwh);
                    v["battery_capacity_unit"] = json!("kilowatt_hours");
                    ("bev", v)
                }
                _ => (
                    "phev",
                    json!({"name": "vehicle", "charge_depleting": record_cfg(2, "cd"), "charge_sustaining": record_cfg(3, "cs"),
                           "battery_capacity": c.capacity_kwh, "battery_capacity_unit": "kilowatt_hours"}),
                ),
            };
            Some(
                VehicleBuilder::from_string(kind.to_string())
                    .and_then(|b| b.build(&cfg))
                    .map_err(|e| format!("{} (configuration {})", e, cfg)),
            )
        } else {
            None
        };
        let base: Arc<dyn VehicleType> = match c.vehicle % 3 {
            _ if built_from_config.is_some() => match built_from_config.unwrap() {
                Ok(v) => v,
                Err(e) => {
                    o.fail("C08/vehicle-builder/valid-configuration-rejected", json!({"error": e}));
                    return o;
                }
            },
            0 => match rec(0).and_then(|r| ICE::new("vehicle".into(), r).map_err(|e| e.to_string())) {
                Ok(v) => Arc::new(v),
                Err(e) => {
                    o.fail("C08/harness/vehicle-build", json!({"error": e}));
                    return o;
                }
            },
            1 => match rec(1) {
                Ok(r) => Arc::new(BEV::new("vehicle".into(), r, cap, cap, EnergyUnit::KilowattHours)),
                Err(e) => {
                    o.fail("C08/harness/vehicle-build", json!({"error": e}));
                    return o;
                }
            },
            _ => match (rec(3), rec(2)) {
                (Ok(cs), Ok(cd)) => match PHEV::new("vehicle".into(), cs, cd, cap, cap, EnergyUnit::KilowattHours, None) {
                    Ok(v) => Arc::new(v),
                    Err(e) => {
                        o.fail("C08/harness/vehicle-build", json!({"error": e.to_string()}));
                        return o;
                    }
                },
                (a, b) => {
                    o.fail("C08/harness/vehicle-build", json!({"error": format!("{:?} {:?}", a.err(), b.err())}));
                    return o;
                }
            },
        };
        let query = query_for(c);
        // starting charge: validity
        let battery = c.vehicle % 3 != 0;
        let expect_reject = battery
            && match &c.soc {
                SocSpec::Valid(_) => false,
                SocSpec::Missing => c.vehicle % 3 == 2,
                _ => true,
            };
        let vehicle = match base.update_from_query(&query) {
            Ok(v) => {
                if expect_reject {
                    o.fail(
                        format!("C08/{}/invalid-starting-charge-accepted", vname),
                        json!({"query": query}),
                    );
                    return o;
                }
                v
            }
            Err(e) => {
                if !expect_reject {
                    o.fail(
                        format!("C08/{}/valid-starting-charge-rejected", vname),
                        json!({"query": query, "error": e.to_string()}),
                    );
                } else {
                    o.label("starting-charge-rejected");
                }
                return o;
            }
        };
        let start_soc = match &c.soc {
            SocSpec::Valid(v) => *v,
            _ => 100.0,
        };
        // models
        let su = SPEED_UNITS[c.speed_unit as usize % 3];
        let du = DISTANCE_UNITS[c.dist_unit as usize % 5];
        let tu = TIME_UNITS[c.time_unit as usize % 4];
        let gu = GRADE_UNITS[c.grade_unit as usize % 3];
        let sdu = DISTANCE_UNITS[c.service_dist_unit as usize % 5];
        let ssu = SPEED_UNITS[c.service_speed_unit as usize % 3];
        o.label(format!("time-model-units-{}-{}-{}", c.speed_unit % 3, c.dist_unit % 5, c.time_unit % 4));
        let engine = Arc::new(SpeedTraversalEngine {
            speed_table: c.edges.iter().map(|e| Speed::new(e.1)).collect::<Vec<_>>().into_boxed_slice(),
            speed_unit: su,
            time_unit: tu,
            distance_unit: du,
            max_speed: Speed::new(c.edges.iter().map(|e| e.1).fold(0.0, f64::max)),
        });
        let time_service: Arc<dyn TraversalModelService> = Arc::new(SpeedLookupService { e: engine });
        let grades: Vec<Grade> = c.edges.iter().map(|e| Grade::new(e.2 / grade_si(gu))).collect();
        let service = Arc::new(EnergyModelService {
            time_model_service: time_service.clone(),
            time_model_speed_unit: ssu,
            grade_table: Arc::new(Some(grades.into_boxed_slice())),
            grade_table_grade_unit: gu,
            time_unit: c.service_time_unit.map(|u| TIME_UNITS[u as usize % 4]).unwrap_or(tu),
            distance_unit: sdu,
            vehicle_library: HashMap::new(),
        });
        let time_model = match time_service.build(&query) {
            Ok(m) => m,
            Err(_) => return o,
        };
        let model = EnergyTraversalModel {
            energy_model_service: service,
            time_model,
            vehicle: vehicle.clone(),
        };
        let sm = match StateModel::empty().extend(model.state_features()) {
            Ok(s) => s,
            Err(e) => {
                o.fail("C08/state-model", json!({"error": e.to_string()}));
                return o;
            }
        };
        let mut state = match sm.initial_state() {
            Ok(s) => s,
            Err(_) => return o,
        };
        let soc_name = "battery_state".to_string();
        let elec_name = "energy_electric".to_string();
        let liq_name = "energy_liquid".to_string();
        let read = |state: &Vec<routee_compass_core::model::traversal::state::state_variable::StateVar>| -> (f64, f64, f64) {
            let soc = if battery { sm.get_custom_f64(state, &soc_name).unwrap_or(f64::NAN) } else { f64::NAN };
            let elec = if battery {
                sm.get_energy(state, &elec_name, &EnergyUnit::KilowattHours).map(|e| e.as_f64()).unwrap_or(f64::NAN)
            } else {
                0.0
            };
            let liq = if c.vehicle % 3 != 1 {
                sm.get_energy(state, &liq_name, &EnergyUnit::GallonsGasoline).map(|e| e.as_f64()).unwrap_or(f64::NAN)
            } else {
                0.0
            };
            (soc, elec, liq)
        };
        let (soc0, e0, l0) = read(&state);
        if battery && (soc0 - start_soc).abs() > 1e-9 * (1.0 + start_soc) {
            o.fail(
                format!("C08/{}/initial-charge-is-not-the-starting-value", vname),
                json!({"query": query, "initial_battery_state": soc0}),
            );
            return o;
        }
        if e0 != 0.0 || l0 != 0.0 {
            o.fail(format!("C08/{}/initial-energy-not-zero", vname), json!({"electric": e0, "liquid": l0}));
            return o;
        }
        // reference predictors
        let pm = |i: usize| base_model(i).ok();
        let (pm_elec, pm_liq) = match c.vehicle % 3 {
            0 => (None, pm(0)),
            1 => (pm(1), None),
            _ => (pm(2), pm(3)),
        };
        let adj = c.adjustment.unwrap_or(1.0);
        let mut lru_elec = c.cache.map(|(cap, ps, pg)| RefLru { cap, ps, pg, entries: vec![] });
        let mut lru_liq = c.cache.map(|(cap, ps, pg)| RefLru { cap, ps, pg, entries: vec![] });
        let mut soc = if battery { soc0 } else { start_soc };
        let mut sum_elec = (0.0f64, 0.0f64);
        let mut sum_liq = (0.0f64, 0.0f64);
        let mut tol_sum = 0.0;
        let mut clamp_event = false;
        let mut negative_edge = false;
        let mut switched = false;
        let mut used_electric = false;
        for (k, (len, speed, grade)) in c.edges.iter().enumerate() {
            let v0 = Vertex::new(k, -105.0, 39.7);
            let v1 = Vertex::new(k + 1, -105.0, 39.7);
            let edge = Edge::new(k, k, k + 1, *len);
            let before = read(&state);
            if let Err(e) = model.traverse_edge((&v0, &edge, &v1), &mut state, &sm) {
                o.fail(format!("C08/{}/traverse-error", vname), json!({"edge": k, "error": e.to_string()}));
                return o;
            }
            let after = read(&state);
            // reference: speed as the service sees it (table speed expressed in its speed unit),
            // grade in the table's unit
            let speed_ref = speed * speed_si(su) / speed_si(ssu);
            let grade_ref = grade / grade_si(gu);
            let electric_mode = match c.vehicle % 3 {
                0 => false,
                1 => true,
                _ => soc > 0.0,
            };
            let (pmodel, lru, rate_unit) = if electric_mode {
                (pm_elec.as_ref(), lru_elec.as_mut(), rate_unit_for(if c.vehicle % 3 == 1 { 1 } else { 2 }, c.elec_rate_unit))
            } else {
                (pm_liq.as_ref(), lru_liq.as_mut(), model_rate_unit(if c.vehicle % 3 == 0 { 0 } else { 3 }))
            };
            let pmodel = match pmodel {
                Some(p) => p,
                None => return o,
            };
            let predict = |s: f64, g: f64| -> f64 {
                pmodel
                    .predict((Speed::new(s), ssu), (Grade::new(g), gu))
                    .map(|(r, _)| r.as_f64())
                    .unwrap_or(f64::NAN)
            };
            // the implementation recovers the speed as length / time, which differs from the
            // table speed by unit-constant rounding; with a cache, the key is that recovered value.
            // A cache answers with one rate per key, i.e. per bucket of speeds and grades that
            // round to the same key: the reference is the range of the model over that bucket
            // (which contains the edge's own speed and grade), not one point of it - whether the
            // entry holds the rate of the bucket's centre or of one of its members is not fixed
            // by the statement; that it must not depend on earlier queries is C06's business.
            let own = predict(speed_ref, grade_ref);
            let (rate_lo, rate_hi) = match lru {
                None => (own, own),
                Some(l) => {
                    let key = l.key(speed_ref, grade_ref);
                    // keys that sit on a rounding boundary cannot be predicted from outside
                    let eps = 3e-4 * speed_ref.abs() + 1e-9;
                    if l.key(speed_ref - eps, grade_ref) != key || l.key(speed_ref + eps, grade_ref) != key {
                        o.label("cache-key-on-rounding-boundary-not-judged");
                        return o;
                    }
                    if l.get(key).is_some() {
                        o.label("cache-key-seen-before");
                    }
                    l.put(key, 0.0);
                    let (ws, wg) = (10f64.powi(-l.ps), 10f64.powi(-l.pg));
                    let (cs, cg) = (key.0 as f64 * ws, key.1 as f64 * wg);
                    // the wrapped model is piecewise bilinear on 0..100 mph x -0.3..0.3 (cells of
                    // 2 mph x 0.02) and constant beyond: the bucket is cut to that domain
                    let (s_max, g_max) = (100.0 * speed_si(SpeedUnit::MilesPerHour) / speed_si(ssu), 0.3 / grade_si(gu));
                    let (s_cell, g_cell) = (s_max / 50.0, g_max / 15.0);
                    let (s0, s1) = ((cs - ws / 2.0).clamp(0.0, s_max), (cs + ws / 2.0).clamp(0.0, s_max));
                    let (g0, g1) = ((cg - wg / 2.0).clamp(-g_max, g_max), (cg + wg / 2.0).clamp(-g_max, g_max));
                    // a piecewise bilinear function takes its extremes over a rectangle at the
                    // rectangle's corners and at the grid lines crossing it: exactly these points
                    let mut xs = vec![s0, s1, speed_ref.clamp(s0, s1)];
                    for k in 0..=50 {
                        let x = k as f64 * s_cell;
                        if x > s0 && x < s1 {
                            xs.push(x);
                        }
                    }
                    let mut ys = vec![g0, g1, grade_ref.clamp(g0, g1)];
                    for k in 0..=30 {
                        let y = -g_max + k as f64 * g_cell;
                        if y > g0 && y < g1 {
                            ys.push(y);
                        }
                    }
                    let (mut lo, mut hi) = (own, own);
                    for x in &xs {
                        for y in &ys {
                            let r = predict(*x, *y);
                            if r.is_finite() {
                                lo = lo.min(r);
                                hi = hi.max(r);
                            }
                        }
                    }
                    (lo, hi)
                }
            };
            let dist_in_rate_unit = len / dist_si(rate_distance_unit(rate_unit));
            let (de_lo, de_hi) = (rate_lo * adj * dist_in_rate_unit, rate_hi * adj * dist_in_rate_unit);
            let flat = predict(speed_ref, 0.0).abs() * adj * dist_in_rate_unit;
            let tol = 3e-3 * de_lo.abs().max(de_hi.abs()) + 3e-3 * flat + 1e-12;
            if de_hi < 0.0 {
                negative_edge = true;
            }
            let d_elec = after.1 - before.1;
            let d_liq = after.2 - before.2;
            let ctx = json!({"edge": k, "length_m": len, "table_speed": speed, "grade_decimal": grade, "mode": if electric_mode { "electric" } else { "liquid" },
                             "reference_rate_range": [rate_lo, rate_hi], "reference_energy_range": [de_lo, de_hi], "reported": {"electric_kwh": d_elec, "liquid_gal": d_liq, "soc_before": before.0, "soc_after": after.0},
                             "capacity_kwh": c.capacity_kwh, "adjustment": adj, "cache": c.cache});
            let within = |d: f64, on: bool| -> bool {
                if on {
                    d >= de_lo - tol && d <= de_hi + tol
                } else {
                    d.abs() <= tol
                }
            };
            if battery && !within(d_elec, electric_mode) {
                o.fail(format!("C08/{}/electric-energy-of-edge", vname), ctx);
                return o;
            }
            if c.vehicle % 3 != 1 && !within(d_liq, !electric_mode) {
                o.fail(format!("C08/{}/liquid-energy-of-edge", vname), ctx);
                return o;
            }
            if c.vehicle % 3 == 2 {
                if electric_mode {
                    used_electric = true;
                } else if used_electric {
                    switched = true;
                }
            }
            if electric_mode {
                sum_elec.0 += de_lo;
                sum_elec.1 += de_hi;
            } else {
                sum_liq.0 += de_lo;
                sum_liq.1 += de_hi;
            }
            tol_sum += tol;
            if battery {
                // charge follows the *reported* electric energy exactly as the statement says
                let unclamped = soc - 100.0 * d_elec / c.capacity_kwh;
                let want_soc = unclamped.clamp(0.0, 100.0);
                if unclamped != want_soc {
                    clamp_event = true;
                }
                if !(0.0..=100.0).contains(&after.0) {
                    o.fail(format!("C08/{}/charge-outside-0-100", vname), ctx);
                    return o;
                }
                if (after.0 - want_soc).abs() > 1e-6 * (1.0 + (100.0 * d_elec / c.capacity_kwh).abs()) {
                    o.fail(
                        format!("C08/{}/charge-update", vname),
                        json!({"ctx": ctx, "expected_charge": want_soc}),
                    );
                    return o;
                }
                soc = after.0;
            }
        }
        // additivity
        let fin = read(&state);
        if battery && (fin.1 < sum_elec.0 - tol_sum - 1e-9 || fin.1 > sum_elec.1 + tol_sum + 1e-9) {
            o.fail(format!("C08/{}/electric-energy-not-additive", vname), json!({"final": fin.1, "sum_of_reference_edge_energies": [sum_elec.0, sum_elec.1]}));
            return o;
        }
        if c.vehicle % 3 != 1 && (fin.2 < sum_liq.0 - tol_sum - 1e-9 || fin.2 > sum_liq.1 + tol_sum + 1e-9) {
            o.fail(format!("C08/{}/liquid-energy-not-additive", vname), json!({"final": fin.2, "sum_of_reference_edge_energies": [sum_liq.0, sum_liq.1]}));
            return o;
        }
        o.label_if(clamp_event, "charge-clamped");
        o.label_if(negative_edge, "negative-energy-edge");
        o.label_if(switched, "phev-electric-to-liquid");
        o.nontrivial = (c.edges.len() >= 3 && negative_edge && clamp_event) || switched;

        // best-case estimate: ideal rate x great-circle distance, nothing for coinciding vertices
        let a = Vertex::new(0, -105.0, 39.7);
        let b = Vertex::new(1, -105.0 + c.estimate.0 as f32 * 1e-3, 39.7 + c.estimate.1 as f32 * 1e-3);
        let mut est_state = match sm.initial_state() {
            Ok(s) => s,
            Err(_) => return o,
        };
        let s0 = read(&est_state);
        if model.estimate_traversal((&a, &a), &mut est_state, &sm).is_err() || read(&est_state).1 != s0.1 || read(&est_state).2 != s0.2 {
            o.fail(format!("C08/{}/estimate-between-coinciding-vertices-changes-state", vname), json!({}));
            return o;
        }
        if let (Ok(()), Ok(dist)) = (
            model.estimate_traversal((&a, &b), &mut est_state, &sm),
            haversine::coord_distance(&a.coordinate, &b.coordinate, sdu),
        ) {
            let s1 = read(&est_state);
            let (ideal_i, is_elec) = match c.vehicle % 3 {
                0 => (0usize, false),
                1 => (1, true),
                _ => (2, true),
            };
            if let Ok(pmi) = base_model(ideal_i) {
                let unit: EnergyRateUnit = rate_unit_for(ideal_i, c.elec_rate_unit);
                if let Ok(ideal) = find_min_energy_rate(&pmi, &unit) {
                    let d_rate_unit = dist.as_f64() * dist_si(sdu) / dist_si(rate_distance_unit(unit));
                    let want = ideal.as_f64() * d_rate_unit;
                    let got = if is_elec { s1.1 - s0.1 } else { s1.2 - s0.2 };
                    if dist.as_f64() > 0.0 && (got - want).abs() > 3e-3 * want.abs() + 1e-12 {
                        o.fail(
                            format!("C08/{}/best-case-energy-is-not-ideal-rate-times-distance", vname),
                            json!({"distance": dist.as_f64(), "service_distance_unit": c.service_dist_unit, "ideal_rate": ideal.as_f64(), "expected": want, "got": got}),
                        );
                    }
                }
            }
        }
        o
    }
}
