//! C09 — unit conversions are linear, invertible and physically correct
use crate::engine::{close, Outcome, Prop, Tier};
use crate::refmodel::*;
use proptest::prelude::*;
use routee_compass_core::model::unit::as_f64::AsF64;
use routee_compass_core::model::unit::{
    Distance, Energy, EnergyRate, Grade, Speed, Time, Weight,
};
use serde::{Deserialize, Serialize};
use serde_json::json;

#[derive(Clone, Debug, Serialize, Deserialize)]
pub enum C09Case {
    /// family: 0 distance 1 time 2 speed 3 energy 4 grade 5 weight
    Convert {
        family: u8,
        from: u8,
        to: u8,
        x: f64,
        y: f64,
        a: f64,
        b: f64,
    },
    TimeCreate {
        su: u8,
        du: u8,
        tu: u8,
        speed: f64,
        dist: f64,
    },
    SpeedCreate {
        tu: u8,
        du: u8,
        su: u8,
        time: f64,
        dist: f64,
    },
    EnergyCreate {
        ru: u8,
        du: u8,
        rate: f64,
        dist: f64,
    },
}

pub fn family_len(family: u8) -> usize {
    match family {
        0 => 5,
        1 => 4,
        _ => 3,
    }
}

fn family_name(family: u8) -> &'static str {
    ["distance", "time", "speed", "energy", "grade", "weight"][family as usize % 6]
}

/// implementation conversion
fn impl_convert(family: u8, from: u8, to: u8, x: f64) -> f64 {
    let (f, t) = (from as usize, to as usize);
    match family {
        0 => DISTANCE_UNITS[f]
            .convert(&Distance::new(x), &DISTANCE_UNITS[t])
            .as_f64(),
        1 => TIME_UNITS[f].convert(&Time::new(x), &TIME_UNITS[t]).as_f64(),
        2 => SPEED_UNITS[f]
            .convert(&Speed::new(x), &SPEED_UNITS[t])
            .as_f64(),
        3 => ENERGY_UNITS[f]
            .convert(&Energy::new(x), &ENERGY_UNITS[t])
            .as_f64(),
        4 => GRADE_UNITS[f]
            .convert(&Grade::new(x), &GRADE_UNITS[t])
            .as_f64(),
        _ => WEIGHT_UNITS[f]
            .convert(&Weight::new(x), &WEIGHT_UNITS[t])
            .as_f64(),
    }
}

/// physical factor (None for energy: fuel equivalences are conventions, not physics)
fn ref_factor(family: u8, from: u8, to: u8) -> Option<f64> {
    let (f, t) = (from as usize, to as usize);
    match family {
        0 => Some(dist_si(DISTANCE_UNITS[f]) / dist_si(DISTANCE_UNITS[t])),
        1 => Some(time_si(TIME_UNITS[f]) / time_si(TIME_UNITS[t])),
        2 => Some(speed_si(SPEED_UNITS[f]) / speed_si(SPEED_UNITS[t])),
        3 => None,
        4 => Some(grade_si(GRADE_UNITS[f]) / grade_si(GRADE_UNITS[t])),
        _ => Some(weight_si(WEIGHT_UNITS[f]) / weight_si(WEIGHT_UNITS[t])),
    }
}

fn magnitude() -> impl Strategy<Value = f64> {
    prop_oneof![
        1 => Just(0.0f64),
        1 => Just(1.0f64),
        1 => Just(-1.0f64),
        12 => (-6.0f64..9.0, any::<bool>()).prop_map(|(e, neg)| {
            let v = 10f64.powf(e);
            if neg { -v } else { v }
        }),
    ]
}

fn positive() -> impl Strategy<Value = f64> {
    (-4.0f64..6.0).prop_map(|e| 10f64.powf(e))
}

fn signed_or_zero() -> impl Strategy<Value = f64> {
    prop_oneof![
        6 => positive(),
        1 => Just(0.0f64),
        1 => positive().prop_map(|v| -v),
    ]
}

pub struct C09;

const MAGS: [f64; 9] = [0.0, 1.0, -1.0, 1e-6, 3.7, -42.5, 1609.344, 1e6, -7.25e8];

impl Prop for C09 {
    type Case = C09Case;
    fn id(&self) -> &'static str {
        "C09"
    }
    fn rule(&self) -> String {
        "enumerated: every ordered unit pair of the six families (25+16+9+9+9+9) x 9 fixed magnitudes, and every (speed,distance,time) unit triple / (rate,distance) pair of the three constructors x fixed operands incl. zero and negative ones; generated: random family/pair with log-uniform signed magnitudes 1e-6..1e9 and random constructor operands. non-trivial = conversion between two different units with |x| not in {0,1}, or a constructor call (all constructor calls cross at least one unit boundary or hit a rejection guard)".to_string()
    }
    fn strategy(&self, _tier: Tier) -> BoxedStrategy<C09Case> {
        let convert = (0u8..6, any::<u16>(), any::<u16>(), magnitude(), magnitude(), magnitude(), magnitude())
            .prop_map(|(family, f, t, x, y, a, b)| {
                let n = family_len(family);
                C09Case::Convert {
                    family,
                    from: crate::engine::pick_idx(f, n) as u8,
                    to: crate::engine::pick_idx(t, n) as u8,
                    x,
                    y,
                    a,
                    b,
                }
            });
        let tc = (0u8..3, 0u8..5, 0u8..4, signed_or_zero(), signed_or_zero())
            .prop_map(|(su, du, tu, speed, dist)| C09Case::TimeCreate { su, du, tu, speed, dist });
        let sc = (0u8..4, 0u8..5, 0u8..3, signed_or_zero(), signed_or_zero())
            .prop_map(|(tu, du, su, time, dist)| C09Case::SpeedCreate { tu, du, su, time, dist });
        let ec = (0u8..5, 0u8..5, magnitude(), magnitude())
            .prop_map(|(ru, du, rate, dist)| C09Case::EnergyCreate { ru, du, rate, dist });
        prop_oneof![5 => convert, 2 => tc, 2 => sc, 1 => ec].boxed()
    }
    fn cases(&self, tier: Tier) -> u32 {
        tier.pick(60_000, 3_000_000)
    }
    fn enumerated(&self, _tier: Tier) -> Box<dyn Iterator<Item = C09Case> + '_> {
        let mut v = vec![];
        for family in 0u8..6 {
            let n = family_len(family) as u8;
            for from in 0..n {
                for to in 0..n {
                    for (i, x) in MAGS.iter().enumerate() {
                        v.push(C09Case::Convert {
                            family,
                            from,
                            to,
                            x: *x,
                            y: MAGS[(i + 3) % MAGS.len()],
                            a: 2.5,
                            b: -0.75,
                        });
                    }
                }
            }
        }
        let ops = [(30.0, 1200.0), (0.0, 5.0), (5.0, 0.0), (-3.0, 10.0), (10.0, -3.0), (0.001, 1e6)];
        for su in 0u8..3 {
            for du in 0u8..5 {
                for tu in 0u8..4 {
                    for (p, q) in ops.iter() {
                        v.push(C09Case::TimeCreate { su, du, tu, speed: *p, dist: *q });
                        v.push(C09Case::SpeedCreate { tu, du, su, time: *p, dist: *q });
                    }
                }
            }
        }
        for ru in 0u8..5 {
            for du in 0u8..5 {
                for (p, q) in ops.iter() {
                    v.push(C09Case::EnergyCreate { ru, du, rate: *p, dist: *q });
                }
            }
        }
        Box::new(v.into_iter())
    }
    fn exhaustive_note(&self, _tier: Tier) -> Option<String> {
        Some("the unit dimension: all 77 ordered unit pairs, all 60 (speed,distance,time) unit triples for Time::create and Speed::create, all 25 (rate,distance) unit pairs for Energy::create; magnitudes are sampled".to_string())
    }
    fn assumptions(&self) -> Vec<String> {
        vec![
            "reference factors are the SI / US customary definitions (1 mi = 1609.344 m, 1 lb = 0.45359237 kg, ton = 2000 lb)".into(),
            "energy units are compared by round trip and linearity only, as the property states".into(),
        ]
    }

    fn check(&self, case: &C09Case) -> Outcome {
        let mut o = Outcome::new();
        match *case {
            C09Case::Convert { family, from, to, x, y, a, b } => {
                let fam = family_name(family);
                o.label(format!("convert-{}", fam));
                o.nontrivial = from != to && x != 0.0 && x.abs() != 1.0;
                let cx = impl_convert(family, from, to, x);
                let cy = impl_convert(family, from, to, y);
                let ctx = json!({"family": fam, "from": from, "to": to, "x": x, "y": y, "a": a, "b": b, "conv_x": cx});
                if from == to && cx != x {
                    o.fail(format!("C09/{}/identity", fam), ctx.clone());
                }
                if !cx.is_finite() {
                    o.fail(format!("C09/{}/non-finite", fam), ctx.clone());
                    return o;
                }
                if impl_convert(family, from, to, 0.0) != 0.0 {
                    o.fail(format!("C09/{}/zero-not-preserved", fam), ctx.clone());
                }
                // linearity
                let lhs = impl_convert(family, from, to, a * x + b * y);
                let rhs = a * cx + b * cy;
                let scale = (a * cx).abs() + (b * cy).abs();
                if (lhs - rhs).abs() > 1e-9 * scale + 1e-300 {
                    o.fail(
                        format!("C09/{}/linearity", fam),
                        json!({"ctx": ctx, "lhs": lhs, "rhs": rhs}),
                    );
                }
                // round trip within 0.1 %
                let back = impl_convert(family, to, from, cx);
                if (back - x).abs() > 1e-3 * x.abs() {
                    o.fail(
                        format!("C09/{}/round-trip", fam),
                        json!({"ctx": ctx, "back": back}),
                    );
                }
                // physical factor within 0.1 %
                if let Some(f) = ref_factor(family, from, to) {
                    let want = x * f;
                    if (cx - want).abs() > 1e-3 * want.abs() {
                        o.fail(
                            format!("C09/{}/physical-factor", fam),
                            json!({"ctx": ctx, "expected": want}),
                        );
                    }
                }
            }
            C09Case::TimeCreate { su, du, tu, speed, dist } => {
                o.label("time-create");
                o.nontrivial = true;
                let (s_u, d_u, t_u) = (
                    SPEED_UNITS[su as usize],
                    DISTANCE_UNITS[du as usize],
                    TIME_UNITS[tu as usize],
                );
                let got = Time::create(&Speed::new(speed), &s_u, &Distance::new(dist), &d_u, &t_u);
                let ctx = json!({"speed": speed, "speed_unit": su, "dist": dist, "dist_unit": du, "time_unit": tu,
                    "got": got.as_ref().map(|t| t.as_f64()).map_err(|e| e.to_string())});
                if speed <= 0.0 || dist <= 0.0 {
                    o.label("time-create-rejected");
                    if got.is_ok() {
                        o.fail("C09/time-create/non-positive-accepted", ctx);
                    }
                } else {
                    let want = (dist * dist_si(d_u)) / (speed * speed_si(s_u)) / time_si(t_u);
                    match got {
                        Err(_) => o.fail("C09/time-create/valid-rejected", ctx),
                        Ok(t) => {
                            if !close(t.as_f64(), want, 2.5e-3, 0.0) {
                                o.fail(
                                    "C09/time-create/value",
                                    json!({"ctx": ctx, "expected": want}),
                                );
                            }
                        }
                    }
                }
                // the same numbers as one edge of the speed-table traversal model (table speed in
                // s_u, model distance unit d_u, time unit t_u, edge length given in metres): the
                // edge's time is that time, and a non-positive speed or length is an error there too
                if dist >= 0.0 {
                    use crate::simodel::{build_state_model, build_traversal, CostSpec, SiSpec, StateSpec, TravSpec};
                    let spec = SiSpec {
                        net: crate::gen::NetCase {
                            shape: "c09".into(),
                            vertices: vec![(0.0, 0.0), (0.001, 0.0)],
                            edges: vec![(0, 1, dist * dist_si(d_u))],
                            metric: false,
                        },
                        trav: TravSpec::Speed { speeds: vec![speed], speed_unit: su, dist_unit: du, time_unit: tu },
                        access: None,
                        cost: CostSpec::distance_only(),
                        state: StateSpec { dist_unit: du, dist_init: 0.0, time_unit: tu, time_init: 0.0 },
                        allowed: None,
                        restricted_turns: vec![],
                    };
                    let sm = build_state_model(&spec);
                    let tm = build_traversal(&spec);
                    if let Ok(mut state) = sm.initial_state() {
                        let v0 = routee_compass_core::model::network::Vertex::new(0, 0.0, 0.0);
                        let v1 = routee_compass_core::model::network::Vertex::new(1, 0.001, 0.0);
                        let edge = routee_compass_core::model::network::Edge::new(0, 0, 1, dist * dist_si(d_u));
                        let r = tm.traverse_edge((&v0, &edge, &v1), &mut state, &sm);
                        let t = sm.get_time(&state, &"time".to_string(), &t_u).map(|t| t.as_f64()).unwrap_or(f64::NAN);
                        let ctx = json!({"table_speed": speed, "speed_unit": su, "edge_length_m": dist * dist_si(d_u), "model_distance_unit": du, "time_unit": tu,
                            "traverse": r.as_ref().map(|_| t).map_err(|e| e.to_string())});
                        if speed <= 0.0 || dist <= 0.0 {
                            if r.is_ok() {
                                o.fail("C09/speed-model/non-positive-speed-or-length-turned-into-a-time", ctx);
                            }
                        } else {
                            let want = (dist * dist_si(d_u)) / (speed * speed_si(s_u)) / time_si(t_u);
                            if r.is_err() || !close(t, want, 2.5e-3, 0.0) {
                                o.fail("C09/speed-model/edge-time", json!({"ctx": ctx, "expected": want}));
                            }
                        }
                    }
                }
            }
            C09Case::SpeedCreate { tu, du, su, time, dist } => {
                o.label("speed-create");
                o.nontrivial = true;
                let (s_u, d_u, t_u) = (
                    SPEED_UNITS[su as usize],
                    DISTANCE_UNITS[du as usize],
                    TIME_UNITS[tu as usize],
                );
                let got = Speed::create(&Time::new(time), &t_u, &Distance::new(dist), &d_u, &s_u);
                let ctx = json!({"time": time, "time_unit": tu, "dist": dist, "dist_unit": du, "speed_unit": su,
                    "got": got.as_ref().map(|t| t.as_f64()).map_err(|e| e.to_string())});
                if time <= 0.0 {
                    o.label("speed-create-rejected");
                    if got.is_ok() {
                        o.fail("C09/speed-create/non-positive-time-accepted", ctx);
                    }
                } else {
                    let want = (dist * dist_si(d_u)) / (time * time_si(t_u)) / speed_si(s_u);
                    match got {
                        Err(_) => o.fail("C09/speed-create/valid-rejected", ctx),
                        Ok(s) => {
                            if !close(s.as_f64(), want, 2.5e-3, 0.0) {
                                o.fail(
                                    "C09/speed-create/value",
                                    json!({"ctx": ctx, "expected": want}),
                                );
                            }
                        }
                    }
                }
            }
            C09Case::EnergyCreate { ru, du, rate, dist } => {
                o.label("energy-create");
                o.nontrivial = true;
                let r_u = ENERGY_RATE_UNITS[ru as usize];
                let d_u = DISTANCE_UNITS[du as usize];
                let got = Energy::create(&EnergyRate::new(rate), &r_u, &Distance::new(dist), &d_u);
                let want = rate * conv_dist(dist, d_u, rate_distance_unit(r_u));
                let ctx = json!({"rate": rate, "rate_unit": ru, "dist": dist, "dist_unit": du, "expected": want});
                match got {
                    Err(e) => o.fail(
                        "C09/energy-create/error",
                        json!({"ctx": ctx, "error": e.to_string()}),
                    ),
                    Ok((e, u)) => {
                        if u != rate_energy_unit(r_u) {
                            o.fail("C09/energy-create/unit", ctx.clone());
                        }
                        if !close(e.as_f64(), want, 1e-3, 0.0) {
                            o.fail(
                                "C09/energy-create/value",
                                json!({"ctx": ctx, "got": e.as_f64()}),
                            );
                        }
                    }
                }
            }
        }
        o
    }
}
