//! C07 — edge costs are finite and strictly positive; estimates are non-negative
use crate::engine::{pick_idx, Outcome, Prop, Tier};
use crate::simodel::RateSpec;
use proptest::prelude::*;
use routee_compass_core::algorithm::search::edge_traversal::EdgeTraversal;
use routee_compass_core::algorithm::search::search_instance::SearchInstance;
use routee_compass_core::model::access::access_model::AccessModel;
use routee_compass_core::model::access::access_model_error::AccessModelError;
use routee_compass_core::model::cost::cost_aggregation::CostAggregation;
use routee_compass_core::model::cost::cost_model::CostModel;
use routee_compass_core::model::cost::network::network_cost_rate::NetworkCostRate;
use routee_compass_core::model::frontier::default::no_restriction::NoRestriction;
use routee_compass_core::model::network::{Edge, EdgeId, Vertex};
use routee_compass_core::model::state::custom_feature_format::CustomFeatureFormat;
use routee_compass_core::model::state::state_feature::StateFeature;
use routee_compass_core::model::state::state_model::StateModel;
use routee_compass_core::model::termination::termination_model::TerminationModel;
use routee_compass_core::model::traversal::state::state_variable::StateVar;
use routee_compass_core::model::traversal::traversal_model::TraversalModel;
use routee_compass_core::model::traversal::traversal_model_error::TraversalModelError;
use routee_compass_core::model::unit::as_f64::AsF64;
use routee_compass_core::model::unit::Cost;
use serde::{Deserialize, Serialize};
use serde_json::json;
use std::collections::HashMap;
use std::sync::Arc;

const N_EDGES: usize = 4;
pub const FLOOR: f64 = 1e-10;

#[derive(Clone, Debug, Serialize, Deserialize)]
pub enum NetSpec {
    None,
    /// surcharge per edge id 0..3
    Edge(Vec<f64>),
    /// surcharge per (prev, next) pair
    Pair(Vec<(u8, u8, f64)>),
    Combined(Vec<NetSpec>),
}

impl NetSpec {
    fn to_impl(&self) -> NetworkCostRate {
        match self {
            NetSpec::None => NetworkCostRate::Zero,
            NetSpec::Edge(v) => NetworkCostRate::EdgeLookup {
                lookup: v
                    .iter()
                    .enumerate()
                    .map(|(i, c)| (EdgeId(i), Cost::new(*c)))
                    .collect(),
            },
            NetSpec::Pair(v) => NetworkCostRate::EdgeEdgeLookup {
                lookup: v
                    .iter()
                    .map(|(a, b, c)| ((EdgeId(*a as usize), EdgeId(*b as usize)), Cost::new(*c)))
                    .collect(),
            },
            NetSpec::Combined(v) => NetworkCostRate::Combined(v.iter().map(|n| n.to_impl()).collect()),
        }
    }
    fn edge(&self, e: usize) -> f64 {
        match self {
            NetSpec::Edge(v) => v.get(e).copied().unwrap_or(0.0),
            NetSpec::Combined(v) => v.iter().map(|n| n.edge(e)).sum(),
            _ => 0.0,
        }
    }
    fn pair(&self, p: usize, e: usize) -> f64 {
        match self {
            NetSpec::Pair(v) => v
                .iter()
                .rev()
                .find(|(a, b, _)| *a as usize == p && *b as usize == e)
                .map(|(_, _, c)| *c)
                .unwrap_or(0.0),
            NetSpec::Combined(v) => v.iter().map(|n| n.pair(p, e)).sum(),
            _ => 0.0,
        }
    }
    fn has_pair(&self) -> bool {
        match self {
            NetSpec::Pair(_) => true,
            NetSpec::Combined(v) => v.iter().any(|n| n.has_pair()),
            _ => false,
        }
    }
}

#[derive(Clone, Debug, Serialize, Deserialize)]
pub struct C07Case {
    pub weights: Vec<f64>,
    pub rates: Vec<RateSpec>,
    pub nets: Vec<NetSpec>,
    pub mul: bool,
    pub prev: Vec<f64>,
    /// state change due to the turn (access) and due to the traversal
    pub d_access: Vec<f64>,
    pub d_trav: Vec<f64>,
    pub edge: u8,
    pub prev_edge: u8,
    pub lambda: f64,
    pub other: f64,
}

pub struct C07;

struct DeltaModel {
    delta: Vec<f64>,
}
impl TraversalModel for DeltaModel {
    fn state_features(&self) -> Vec<(String, StateFeature)> {
        vec![]
    }
    fn traverse_edge(
        &self,
        _t: (&Vertex, &Edge, &Vertex),
        state: &mut Vec<StateVar>,
        _sm: &StateModel,
    ) -> Result<(), TraversalModelError> {
        for (s, d) in state.iter_mut().zip(&self.delta) {
            *s = StateVar(s.0 + d);
        }
        Ok(())
    }
    fn estimate_traversal(
        &self,
        _od: (&Vertex, &Vertex),
        _state: &mut Vec<StateVar>,
        _sm: &StateModel,
    ) -> Result<(), TraversalModelError> {
        Ok(())
    }
}
impl AccessModel for DeltaModel {
    fn state_features(&self) -> Vec<(String, StateFeature)> {
        vec![]
    }
    fn access_edge(
        &self,
        _t: (&Vertex, &Edge, &Vertex, &Edge, &Vertex),
        state: &mut Vec<StateVar>,
        _sm: &StateModel,
    ) -> Result<(), AccessModelError> {
        for (s, d) in state.iter_mut().zip(&self.delta) {
            *s = StateVar(s.0 + d);
        }
        Ok(())
    }
}

fn fname(i: usize) -> String {
    // names whose alphabetical order differs from their order in the state vector
    format!("{}{}", ["q", "c", "x", "a", "m", "z", "b", "k"][i % 8], i)
}

fn state_model(n: usize) -> Arc<StateModel> {
    Arc::new(StateModel::new(
        (0..n)
            .map(|i| {
                (
                    fname(i),
                    StateFeature::Custom {
                        r#type: "quantity".into(),
                        unit: "unit".into(),
                        format: CustomFeatureFormat::FloatingPoint { initial: 0.0.into() },
                    },
                )
            })
            .collect(),
    ))
}

fn cost_model(case: &C07Case, weights: &[f64], nets: &[NetSpec], sm: Arc<StateModel>) -> Result<CostModel, String> {
    let n = weights.len();
    // a third of the cases whose rates can be written in a configuration obtain the model the
    // way the application does: CostModelBuilder from a [cost] section (with other weights), then
    // CostModelService::build with the weights as the *query's* override (zeros and negatives
    // included - the query's map replaces the configured one entry for entry)
    let writable = nets.iter().all(|x| matches!(x, NetSpec::None))
        && case.rates.iter().all(|r| !matches!(r, RateSpec::Combined(_)));
    if writable && (case.edge as usize + n) % 3 == 0 {
        let mut rates = serde_json::Map::new();
        let mut cfg_w = serde_json::Map::new();
        let mut q_w = serde_json::Map::new();
        for i in 0..n {
            rates.insert(fname(i), case.rates[i].to_json());
            cfg_w.insert(fname(i), json!(1.0 + i as f64));
            q_w.insert(fname(i), json!(weights[i]));
        }
        let cfg = json!({"vehicle_rates": rates, "weights": cfg_w, "cost_aggregation": if case.mul { "mul" } else { "sum" }});
        let svc = routee_compass::app::compass::config::cost_model::cost_model_builder::CostModelBuilder {}
            .build(&cfg)
            .map_err(|e| e.to_string())?;
        return svc.build(&json!({"weights": q_w}), sm).map_err(|e| e.to_string());
    }
    let w: HashMap<String, f64> = (0..n).map(|i| (fname(i), weights[i])).collect();
    let r = (0..n).map(|i| (fname(i), case.rates[i].to_impl())).collect();
    let nr = (0..n)
        .filter(|i| !matches!(nets[*i], NetSpec::None))
        .map(|i| (fname(i), nets[i].to_impl()))
        .collect();
    CostModel::new(
        Arc::new(w),
        Arc::new(r),
        Arc::new(nr),
        if case.mul { CostAggregation::Mul } else { CostAggregation::Sum },
        sm,
    )
    .map_err(|e| e.to_string())
}

fn sv(v: &[f64]) -> Vec<StateVar> {
    v.iter().map(|x| StateVar(*x)).collect()
}

fn graph() -> routee_compass_core::model::network::graph::Graph {
    crate::gen::NetCase {
        shape: "c07".into(),
        vertices: vec![(0.0, 0.0), (0.001, 0.0), (0.002, 0.0)],
        edges: vec![(0, 1, 100.0), (1, 2, 100.0), (1, 0, 100.0), (2, 1, 100.0)],
        metric: false,
    }
    .graph()
}

/// sum over features of w*(rate(delta)+surcharge), and the scale of its terms
fn ref_sum(weights: &[f64], rates: &[RateSpec], delta: &[f64], surcharge: &dyn Fn(usize) -> f64) -> (f64, f64) {
    let mut total = 0.0;
    let mut scale = 0.0;
    for i in 0..weights.len() {
        let t = weights[i] * rates[i].eval(delta[i]);
        let s = weights[i] * surcharge(i);
        total += t;
        total += s;
        scale += t.abs() + s.abs();
    }
    (total, scale)
}

impl Prop for C07 {
    type Case = C07Case;
    fn id(&self) -> &'static str {
        "C07"
    }
    fn rule(&self) -> String {
        "generated: 1-8 state features; weights in [-10,10] incl. zeros with non-zero sum; vehicle rates zero/raw/factor/offset/combined(depth<=3) with parameters in [-1e3,1e3]; network rates none/edge lookup/edge-pair lookup/combined (nested, depth<=3); one case in 5 scales the weight vector by 1e-6..1e-16 so that positive sums lie far below the floor; aggregation sum or mul; previous state and the state changes of the turn and of the traversal in [-1e6,1e6] incl. zero and negative changes; the cost model built directly or (rates a configuration can express, a third of those cases) through CostModelBuilder + CostModelService::build with the weights as the query's override; direct calls of traversal_cost/access_cost/cost_estimate plus EdgeTraversal::forward_traversal with harness models that apply exactly the generated changes. non-trivial = the un-floored total is <= 0 (floor exercised) or at least two non-zero-weight features contribute with opposite signs".to_string()
    }
    fn cases(&self, tier: Tier) -> u32 {
        tier.pick(200_000, 8_000_000)
    }
    fn assumptions(&self) -> Vec<String> {
        vec![
            "magnitudes are bounded so that no product overflows f64 (finiteness is about the model, not IEEE overflow)".into(),
            "EdgeTraversal's total is defined by the code as the floored traversal total (which already contains the turn's state change); the per-turn network surcharge is part of access_cost only".into(),
            "cases whose un-floored total is within 1e-9 of its terms' magnitude of zero are not judged on which side of the floor they fall".into(),
        ]
    }
    fn strategy(&self, _tier: Tier) -> BoxedStrategy<C07Case> {
        (1usize..=8)
            .prop_flat_map(|n| {
                let w = prop_oneof![2 => Just(0.0f64), 1 => Just(1.0f64), 6 => (-10.0f64..10.0).prop_map(|v| (v * 16.0).round() / 16.0)];
                let param = || (-1000.0f64..1000.0).prop_map(|v| (v * 8.0).round() / 8.0);
                let leaf = prop_oneof![
                    1 => Just(RateSpec::Zero),
                    3 => Just(RateSpec::Raw),
                    3 => param().prop_map(RateSpec::Factor),
                    2 => param().prop_map(RateSpec::Offset),
                ];
                let rate = leaf.clone().prop_recursive(3, 8, 3, |inner| {
                    proptest::collection::vec(inner, 1..4).prop_map(RateSpec::Combined)
                });
                let sur = || prop_oneof![1 => Just(0.0f64), 3 => (-50.0f64..200.0).prop_map(|v| (v * 4.0).round() / 4.0)];
                let net_leaf = prop_oneof![
                    4 => Just(NetSpec::None),
                    2 => proptest::collection::vec(sur(), N_EDGES).prop_map(NetSpec::Edge),
                    2 => proptest::collection::vec((0u8..N_EDGES as u8, 0u8..N_EDGES as u8, sur()), 0..5).prop_map(NetSpec::Pair),
                ];
                // combined network rates may contain combined ones (depth <= 3)
                let net = net_leaf.prop_recursive(3, 8, 3, |inner| {
                    prop_oneof![
                        1 => proptest::collection::vec(inner, 1..3).prop_map(NetSpec::Combined),
                    ]
                });
                let val = || prop_oneof![
                    2 => Just(0.0f64),
                    3 => (-1.0e6f64..1.0e6).prop_map(|v| (v * 4.0).round() / 4.0),
                    3 => (-100.0f64..100.0).prop_map(|v| (v * 64.0).round() / 64.0),
                ];
                (
                    proptest::collection::vec(w, n),
                    proptest::collection::vec(rate, n),
                    proptest::collection::vec(net, n),
                    proptest::bool::weighted(0.2),
                    proptest::collection::vec(val(), n),
                    proptest::collection::vec(prop_oneof![2 => Just(0.0f64), 1 => val()], n),
                    proptest::collection::vec(val(), n),
                    (0u8..N_EDGES as u8, 0u8..N_EDGES as u8, (0.01f64..100.0), val()),
                    // the whole weight vector scaled down: positive sums far below the floor
                    prop_oneof![12 => Just(1.0f64), 1 => Just(1e-6f64), 1 => Just(1e-12f64), 1 => Just(1e-16f64)],
                )
            })
            .prop_map(|(mut weights, rates, nets, mul, prev, d_access, d_trav, (edge, prev_edge, lambda, other), wscale)| {
                if weights.iter().sum::<f64>() == 0.0 {
                    weights[0] += 1.0;
                }
                for w in weights.iter_mut() {
                    *w *= wscale;
                }
                C07Case {
                    weights,
                    rates,
                    nets,
                    mul,
                    prev,
                    d_access,
                    d_trav,
                    edge,
                    prev_edge,
                    lambda: (lambda * 16.0).round() / 16.0 + 0.0625,
                    other,
                }
            })
            .boxed()
    }
    fn check(&self, c: &C07Case) -> Outcome {
        let mut o = Outcome::new();
        let n = c.weights.len();
        let sm = state_model(n);
        let cm = match cost_model(c, &c.weights, &c.nets, sm.clone()) {
            Ok(m) => m,
            Err(e) => {
                o.fail("C07/cost-model/build-error", json!({"error": e}));
                return o;
            }
        };
        let g = graph();
        let e = g.get_edge(&EdgeId(c.edge as usize % N_EDGES)).unwrap();
        let pe = g.get_edge(&EdgeId(c.prev_edge as usize % N_EDGES)).unwrap();
        let (ei, pi) = (e.edge_id.0, pe.edge_id.0);
        let after_access: Vec<f64> = c.prev.iter().zip(&c.d_access).map(|(a, b)| a + b).collect();
        let next: Vec<f64> = after_access.iter().zip(&c.d_trav).map(|(a, b)| a + b).collect();
        let d_total: Vec<f64> = next.iter().zip(&c.prev).map(|(a, b)| a - b).collect();
        let d_acc: Vec<f64> = after_access.iter().zip(&c.prev).map(|(a, b)| a - b).collect();
        o.label(if c.mul { "mul" } else { "sum" });
        o.label_if(c.rates.iter().any(|r| matches!(r, RateSpec::Offset(_))), "offset");
        o.label_if(
            c.rates.iter().any(|r| matches!(r, RateSpec::Combined(v) if v.iter().any(|x| matches!(x, RateSpec::Combined(_))))),
            "combined-depth>=2",
        );
        o.label_if(c.nets.iter().any(|x| x.has_pair()), "edge-pair-lookup");
        o.label_if(d_total.iter().any(|d| *d < 0.0), "negative-state-change");
        o.label_if(d_total.iter().all(|d| *d == 0.0), "zero-state-change");

        let t = cm.traversal_cost(e, &sv(&c.prev), &sv(&next));
        let a = cm.access_cost(pe, e, &sv(&c.prev), &sv(&after_access));
        let est = cm.cost_estimate(&sv(&c.prev), &sv(&next));
        let (t, a, est) = match (t, a, est) {
            (Ok(t), Ok(a), Ok(est)) => (t.as_f64(), a.as_f64(), est.as_f64()),
            (t, a, est) => {
                o.fail(
                    "C07/cost-model/error",
                    json!({"traversal": t.map(|c| c.as_f64()).map_err(|e| e.to_string()),
                           "access": a.map(|c| c.as_f64()).map_err(|e| e.to_string()),
                           "estimate": est.map(|c| c.as_f64()).map_err(|e| e.to_string())}),
                );
                return o;
            }
        };
        if !(t.is_finite() && t > 0.0) {
            o.fail("C07/traversal_cost/not-finite-positive", json!({"cost": t}));
        }
        if !(a.is_finite() && a > 0.0) {
            o.fail("C07/access_cost/not-finite-positive", json!({"cost": a}));
        }
        if !(est.is_finite() && est >= 0.0) {
            o.fail("C07/cost_estimate/negative-or-non-finite", json!({"estimate": est}));
        }
        if !c.mul {
            let judge = |o: &mut Outcome, name: &str, got: f64, reference: (f64, f64), floor: f64| -> bool {
                let (want, scale) = reference;
                let tol = 1e-9 * scale + 1e-300;
                if want.abs() <= tol {
                    return false; // too close to zero to say which branch applies
                }
                let expect = if want > 0.0 { want } else { floor };
                if (got - expect).abs() > tol.max(1e-12 * expect.abs()) {
                    o.fail(
                        format!("C07/{}/value", name),
                        json!({"got": got, "unfloored_reference": want, "expected": expect}),
                    );
                }
                want <= 0.0
            };
            let rt = ref_sum(&c.weights, &c.rates, &d_total, &|i| c.nets[i].edge(ei));
            let ra = ref_sum(&c.weights, &c.rates, &d_acc, &|i| c.nets[i].pair(pi, ei));
            let re = ref_sum(&c.weights, &c.rates, &d_total, &|_| 0.0);
            let floored_t = judge(&mut o, "traversal_cost", t, rt, FLOOR);
            let floored_a = judge(&mut o, "access_cost", a, ra, FLOOR);
            judge(&mut o, "cost_estimate", est, re, 0.0);
            o.label_if(floored_t, "traversal-floored");
            o.label_if(floored_a, "access-floored");
            let contributions: Vec<f64> = (0..n)
                .filter(|i| c.weights[*i] != 0.0)
                .map(|i| c.weights[i] * c.rates[i].eval(d_total[i]))
                .collect();
            let mixed = contributions.iter().any(|x| *x > 0.0) && contributions.iter().any(|x| *x < 0.0);
            o.nontrivial = floored_t || floored_a || mixed;

            // metamorphic: linear in the weights (non-floored)
            if rt.0 > 1e-6 * rt.1 && rt.0 > 0.0 {
                let w2: Vec<f64> = c.weights.iter().map(|w| w * c.lambda).collect();
                if let Ok(cm2) = cost_model(c, &w2, &c.nets, sm.clone()) {
                    if let Ok(t2) = cm2.traversal_cost(e, &sv(&c.prev), &sv(&next)) {
                        let want = t * c.lambda;
                        if (t2.as_f64() - want).abs() > 1e-9 * rt.1 * c.lambda + 1e-12 * want.abs() {
                            o.fail(
                                "C07/traversal_cost/not-linear-in-weights",
                                json!({"lambda": c.lambda, "cost": t, "scaled_cost": t2.as_f64()}),
                            );
                        }
                    }
                }
            }
            // metamorphic: zero-weight features are ignored
            if let Some(z) = (0..n).find(|i| c.weights[*i] == 0.0) {
                let mut prev2 = c.prev.clone();
                let mut next2 = next.clone();
                prev2[z] -= c.other.abs() + 1.0;
                next2[z] += c.other.abs() + 3.0;
                if let Ok(t2) = cm.traversal_cost(e, &sv(&prev2), &sv(&next2)) {
                    if t2.as_f64() != t {
                        o.fail(
                            "C07/traversal_cost/zero-weight-feature-matters",
                            json!({"feature": z, "cost": t, "after_change": t2.as_f64()}),
                        );
                    }
                }
                o.label("zero-weight-feature");
            }
            // metamorphic: the surcharge of another edge does not matter
            let other_edge = (ei + 1 + pick_idx(0, 1)) % N_EDGES;
            let nets2: Vec<NetSpec> = c
                .nets
                .iter()
                .map(|ns| match ns {
                    NetSpec::Edge(v) => {
                        let mut v = v.clone();
                        v[other_edge] += 17.5;
                        NetSpec::Edge(v)
                    }
                    other => other.clone(),
                })
                .collect();
            if let Ok(cm3) = cost_model(c, &c.weights, &nets2, sm.clone()) {
                if let Ok(t3) = cm3.traversal_cost(e, &sv(&c.prev), &sv(&next)) {
                    if t3.as_f64() != t {
                        o.fail(
                            "C07/traversal_cost/other-edge-surcharge-matters",
                            json!({"edge": ei, "changed_edge": other_edge, "cost": t, "after_change": t3.as_f64()}),
                        );
                    }
                }
            }
        } else {
            o.nontrivial = d_total.iter().any(|d| *d <= 0.0);
        }

        // EdgeTraversal level: harness models apply exactly the generated changes
        let si = SearchInstance {
            directed_graph: Arc::new(g),
            state_model: sm.clone(),
            traversal_model: Arc::new(DeltaModel { delta: c.d_trav.clone() }),
            access_model: Arc::new(DeltaModel { delta: c.d_access.clone() }),
            cost_model: Arc::new(cm),
            frontier_model: Arc::new(NoRestriction {}),
            termination_model: Arc::new(TerminationModel::IterationsLimit { limit: 10 }),
        };
        for (with_prev, dir) in [(true, "forward"), (false, "forward-first"), (true, "reverse")] {
            let prev_edge = if with_prev { Some(EdgeId(pi)) } else { None };
            let r = if dir == "reverse" {
                EdgeTraversal::reverse_traversal(EdgeId(ei), prev_edge, &sv(&c.prev), &si)
            } else {
                EdgeTraversal::forward_traversal(EdgeId(ei), prev_edge, &sv(&c.prev), &si)
            };
            match r {
                Err(e) => o.fail(
                    format!("C07/edge-traversal/{}/error", dir),
                    json!({"error": e.to_string()}),
                ),
                Ok(et) => {
                    let total = et.total_cost().as_f64();
                    let sum = et.access_cost.as_f64() + et.traversal_cost.as_f64();
                    if !(total.is_finite() && total > 0.0) {
                        o.fail(
                            format!("C07/edge-traversal/{}/total-not-finite-positive", dir),
                            json!({"access_cost": et.access_cost.as_f64(), "traversal_cost": et.traversal_cost.as_f64(), "total_cost": total}),
                        );
                    }
                    // the two shares sum to the charged total (up to the floor re-applied after
                    // floating point cancellation of a large access share)
                    if (total - sum).abs() > FLOOR * 1.000001 + 4.0 * f64::EPSILON * et.access_cost.as_f64().abs() {
                        o.fail(
                            format!("C07/edge-traversal/{}/total-is-not-access-plus-traversal", dir),
                            json!({"total": total, "sum": sum}),
                        );
                    }
                    // the state really is prev + access change + traversal change
                    let want: Vec<f64> = if with_prev { next.clone() } else { c.prev.iter().zip(&c.d_trav).map(|(a, b)| a + b).collect() };
                    if et.result_state.iter().map(|s| s.0).collect::<Vec<_>>() != want {
                        o.fail(format!("C07/edge-traversal/{}/state", dir), json!({"want": want}));
                    }
                    if !c.mul && with_prev && dir == "forward" {
                        let rt = ref_sum(&c.weights, &c.rates, &d_total, &|i| c.nets[i].edge(ei));
                        let tol = 1e-9 * rt.1 + 1e-300;
                        if rt.0.abs() > tol {
                            let expect = if rt.0 > 0.0 { rt.0 } else { FLOOR };
                            // the subtraction/addition of the access share may lose up to an ulp of it
                            let slack = tol.max(4.0 * f64::EPSILON * et.access_cost.as_f64().abs());
                            if (total - expect).abs() > slack.max(1e-12 * expect) {
                                o.fail(
                                    "C07/edge-traversal/forward/total-value",
                                    json!({"total": total, "expected": expect, "access_cost": et.access_cost.as_f64()}),
                                );
                            }
                        }
                    }
                }
            }
        }
        o
    }
}
