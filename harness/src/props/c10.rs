//! C10 — search limits bound the work and never alter an answer, only stop it
use crate::engine::{Outcome, Prop, Tier};
use crate::searchrun::*;
use crate::simodel::*;
use proptest::prelude::*;
use routee_compass::app::compass::config::termination_model_builder::TerminationModelBuilder;
use routee_compass_core::algorithm::search::edge_traversal::EdgeTraversal;
use routee_compass_core::model::network::EdgeId;
use routee_compass_core::model::termination::termination_model::TerminationModel;
use routee_compass_core::model::unit::as_f64::AsF64;
use serde::{Deserialize, Serialize};
use serde_json::json;
use std::collections::{HashMap, HashSet};
use std::sync::atomic::AtomicU64;
use std::sync::Arc;
use std::time::Duration;

#[derive(Clone, Debug, Serialize, Deserialize)]
pub enum LimitKind {
    /// sweep the iteration limit from 0 to needed+3
    Iterations,
    /// sweep the solution-size limit from 0 to final size+2
    SolutionSize,
    /// sweep iteration limit x a fixed solution-size limit, combined
    Combined { size: usize },
    /// runtime limit in ms with check frequency; the traversal model sleeps 3x the limit at call k
    Runtime { limit_ms: u64, frequency: u64, sleep_at: u64 },
    /// the runtime limit as written in a configuration ("H:MM:SS" text + check frequency): the
    /// model built from it must carry exactly that budget and frequency
    RuntimeConfig { h: u64, m: u64, s: u64, frequency: u64 },
}

#[derive(Clone, Debug, Serialize, Deserialize)]
pub struct C10Case {
    pub search: SearchCase,
    pub kind: LimitKind,
}

pub struct C10;

fn iterations_model(limit: u64) -> TerminationModel {
    // through the configuration builder, so its parsing is on the tested path
    TerminationModelBuilder::build(&json!({"type": "iterations", "limit": limit}), None)
        .unwrap_or(TerminationModel::IterationsLimit { limit })
}
fn size_model(limit: usize) -> TerminationModel {
    TerminationModelBuilder::build(&json!({"type": "solution_size", "limit": limit}), None)
        .unwrap_or(TerminationModel::SolutionSizeLimit { limit })
}
fn combined_model(limit: u64, size: usize) -> TerminationModel {
    TerminationModelBuilder::build(
        &json!({"type": "combined", "models": [
            {"type": "solution_size", "limit": size},
            {"type": "iterations", "limit": limit}]}),
        None,
    )
    .unwrap_or(TerminationModel::Combined {
        models: vec![
            TerminationModel::SolutionSizeLimit { limit: size },
            TerminationModel::IterationsLimit { limit },
        ],
    })
}

/// (route edge ids, route states, tree as sorted (vertex,parent,edge)) for exact comparison
/// only the first `n` routes (the alternatives of the k-shortest-path algorithms depend on hash
/// iteration order among equal-cost via vertices, so only the first route is comparable)
fn fingerprint_n(r: &PlainResult, n: usize) -> serde_json::Value {
    json!({
        // (the number of trees is fixed by the algorithm: 1, or 2 for single-via)
        "trees": r.trees.len(),
        "routes": r.routes.iter().take(n).map(|rt| rt.iter().map(|e| (e.edge_id.0, e.result_state.iter().map(|s| s.0).collect::<Vec<_>>(), e.access_cost.as_f64(), e.traversal_cost.as_f64())).collect::<Vec<_>>()).collect::<Vec<_>>(),
    })
}

/// expansion events observed through the counting frontier: a new event starts whenever the
/// (expanded vertex, previous edge) of consecutive calls changes.  Expansions of vertices
/// without incident edges are invisible, so this is a lower bound of the true count.
fn expansions(case: &SearchCase, calls: &[(usize, Option<usize>)]) -> Vec<(usize, Vec<usize>)> {
    let mut out: Vec<(usize, Vec<usize>)> = vec![];
    let mut last: Option<(usize, Option<usize>)> = None;
    for (e, p) in calls {
        let (s, d, _) = case.spec.net.edges[*e];
        let v = if case.reverse { d } else { s };
        // a vertex offers each incident edge once per expansion: a repeated edge also starts a new event
        let same = last == Some((v, *p)) && !out.last().map(|(_, es)| es.contains(e)).unwrap_or(false);
        if !same {
            out.push((v, vec![]));
            last = Some((v, *p));
        }
        out.last_mut().unwrap().1.push(*e);
    }
    out
}

fn run_with(case: &SearchCase, term: TerminationModel) -> (Result<PlainResult, ErrKind>, Vec<(usize, Option<usize>)>) {
    let built = match build_si(
        &case.spec,
        BuildOpts {
            counting: true,
            termination: Some(term),
            traversal_wrapper: None,
        },
    ) {
        Ok(b) => b,
        Err(e) => return (Err(ErrKind::Build(e)), vec![]),
    };
    let r = run_plain(case, &built.si);
    let calls = built.counting.map(|c| c.take()).unwrap_or_default();
    (r, calls)
}

/// Yen's algorithm (helper process): every sub-search carries the instance's iteration limit.
/// Swept from 0 upwards, a limited run must either be stopped with the explicit error naming
/// the limit or return exactly what the unlimited run returns - never fewer or other routes.
/// (What Yen returns without a limit is judged by C13 and has listed findings; here only the
/// relation between the limited and the unlimited run is judged.)
fn check_yens(sc: &SearchCase, o: &mut Outcome) {
    o.label("kind-yens-iterations");
    let built = match build_si(&sc.spec, BuildOpts::default()) {
        Ok(b) => b,
        Err(_) => return,
    };
    let unlimited = match run_search(sc, &built.si) {
        RunOutcome::Done(Ok(r)) => r,
        _ => {
            o.label("yens-unlimited-run-not-usable");
            return;
        }
    };
    let fp_u = fingerprint_n(&unlimited, usize::MAX);
    match run_yens_isolated_limited(sc, None) {
        RunOutcome::Done(Ok(r)) if fingerprint_n(&r, usize::MAX) == fp_u => {}
        _ => {
            o.label("yens-not-repeatable-not-judged");
            return;
        }
    }
    let top = (2 * sc.spec.net.n() as u64 + 4).min(40);
    let mut stopped = false;
    for l in 0..=top {
        match run_yens_isolated_limited(sc, Some(l)) {
            RunOutcome::Done(Err(ErrKind::Terminated(msg))) => {
                stopped = true;
                if !msg.contains("iteration limit") {
                    o.fail("C10/yens/termination-error-does-not-name-the-limit", json!({"limit": l, "message": msg}));
                    return;
                }
            }
            RunOutcome::Done(Ok(r)) => {
                if fingerprint_n(&r, usize::MAX) != fp_u {
                    o.fail(
                        "C10/yens/result-under-a-limit-differs-from-the-unlimited-result",
                        json!({"limit": l,
                               "limited_routes": r.routes.iter().map(|rt| route_ids(rt)).collect::<Vec<_>>(),
                               "unlimited_routes": unlimited.routes.iter().map(|rt| route_ids(rt)).collect::<Vec<_>>()}),
                    );
                    return;
                }
            }
            RunOutcome::Done(Err(e)) => {
                o.fail(
                    "C10/yens/result-under-a-limit-differs-from-the-unlimited-result",
                    json!({"limit": l, "limited_error": format!("{:?}", e),
                           "unlimited_routes": unlimited.routes.iter().map(|rt| route_ids(rt)).collect::<Vec<_>>()}),
                );
                return;
            }
            _ => {
                // helper killed on its wall budget or not available: nothing to judge
                o.label("yens-limited-run-not-usable");
                return;
            }
        }
    }
    if stopped && unlimited.routes.len() >= 2 {
        o.nontrivial = true;
    }
}

impl Prop for C10 {
    type Case = C10Case;
    fn id(&self) -> &'static str {
        "C10"
    }
    fn rule(&self) -> String {
        "generated: network x query (Dijkstra, A* any factor, single-via and Yen k-shortest paths whose sub-searches are limited individually - Yen only as limited-versus-unlimited relation; forward/reverse; with/without destination) x limit kind; for iteration, solution-size and combined limits the limit value is swept exhaustively from 0 to what the unlimited search needs + 3, through the configuration builder; expansions are observed by a counting frontier model, tree sizes are recomputed by replaying the recorded expansion order in a reference relaxation; runtime limits use a traversal model that sleeps 3x the budget at a generated call; the runtime limit as configuration text (H:MM:SS, frequency) must build a model with exactly that budget. non-trivial = a limit value strictly between 0 and the needed amount on a search that needs >= 3 expansions (or a runtime case whose sleep happens before the search would end)".to_string()
    }
    fn cases(&self, tier: Tier) -> u32 {
        tier.pick(30_000, 600_000)
    }
    fn assumptions(&self) -> Vec<String> {
        vec![
            "a check frequency of 0 is not a valid configuration (the model would divide by zero) and is not generated".into(),
            "observed expansions are a lower bound of the true number (vertices without incident edges are invisible to the frontier model)".into(),
            "runtime behaviour is only tested through an injected sleep of 3x the budget and a budget 10^4 times the un-slept run time".into(),
        ]
    }
    fn strategy(&self, tier: Tier) -> BoxedStrategy<C10Case> {
        let max_n = tier.pick(10, 30);
        let algs = prop_oneof![
            4 => base_alg(),
            1 => (1usize..4, base_alg()).prop_map(|(k, u)| AlgSpec::SingleVia { k, underlying: Box::new(u), sim: None, term: None }),
            1 => (2usize..4, base_alg()).prop_map(|(k, u)| AlgSpec::Yens { k, underlying: Box::new(u), sim: None, term: None }),
        ]
        .boxed();
        let kind = prop_oneof![
            40 => Just(LimitKind::Iterations),
            30 => Just(LimitKind::SolutionSize),
            20 => (0usize..12).prop_map(|size| LimitKind::Combined { size }),
            1 => (1u64..4, 0u64..12).prop_map(|(frequency, sleep_at)| LimitKind::Runtime { limit_ms: 60, frequency, sleep_at }),
            2 => (prop_oneof![3 => Just(0u64), 2 => 0u64..30, 1 => 100u64..2000], 0u64..60, 0u64..60, 1u64..5000).prop_map(|(h, m, s, frequency)| LimitKind::RuntimeConfig { h, m, s, frequency }),
        ];
        (crate::props::c03::c03_strategy(max_n, algs), kind, proptest::bool::weighted(0.8))
            .prop_map(|(mut search, kind, with_dest)| {
                // a third of the generated edge-oriented queries stay edge-oriented (judged by the
                // limited-versus-unlimited relation only); the others become vertex-oriented
                let keep_edge = search.edge_oriented && search.d.is_some() && !search.alg.is_yens() && search.o % 3 == 0;
                if !keep_edge {
                    search.edge_oriented = false;
                    let n = search.spec.net.n();
                    if search.o >= n {
                        search.o = 0;
                    }
                    if let Some(d) = search.d {
                        if d >= n || d == search.o {
                            search.d = Some((search.o + 1) % n);
                        }
                    }
                    if !with_dest && !search.alg.is_ksp() {
                        search.d = None;
                    }
                }
                // exact size replay needs history-independent costs
                if matches!(kind, LimitKind::SolutionSize | LimitKind::Combined { .. }) {
                    search.spec.access = None;
                    search.spec.cost.pair_surcharge = None;
                }
                search.query_k = None;
                C10Case { search, kind }
            })
            .boxed()
    }
    fn check(&self, case: &C10Case) -> Outcome {
        let mut o = Outcome::new();
        let sc = &case.search;
        let alg = sc.alg.name().replace('*', "-star");
        o.label(format!("alg-{}", alg));
        o.label_if(sc.reverse, "reverse");
        o.label_if(sc.d.is_none(), "no-destination");
        if let LimitKind::RuntimeConfig { h, m, s, frequency } = &case.kind {
            o.label("kind-runtime-configuration-text");
            let text = format!("{}:{:02}:{:02}", h, m, s);
            let want = Duration::from_secs(h * 3600 + m * 60 + s);
            match TerminationModelBuilder::build(&json!({"type": "query_runtime", "limit": text, "frequency": frequency}), None) {
                Ok(TerminationModel::QueryRuntimeLimit { limit, frequency: f }) => {
                    if limit != want || f != *frequency {
                        o.fail(
                            "C10/runtime-limit/configured-budget-is-not-the-budget-in-force",
                            json!({"configured": text, "configured_frequency": frequency, "budget_in_force_s": limit.as_secs_f64(), "frequency_in_force": f}),
                        );
                    }
                }
                Ok(other) => o.fail("C10/runtime-limit/builder-returned-another-model", json!({"configured": text, "got": format!("{:?}", other)})),
                Err(e) => o.fail("C10/runtime-limit/valid-configuration-rejected", json!({"configured": text, "error": e.to_string()})),
            }
            o.nontrivial = *s != *m && (*h > 0 || *m > 0);
            return o;
        }
        if sc.alg.is_yens() {
            check_yens(sc, &mut o);
            return o;
        }
        let (unlimited, calls_u) = run_with(sc, TerminationModel::IterationsLimit { limit: 1_000_000_000 });
        let exp_u = expansions(sc, &calls_u);
        let cmp_routes = if sc.alg.is_ksp() { 1 } else { usize::MAX };
        let fp_u = unlimited.as_ref().ok().map(|r| fingerprint_n(r, cmp_routes));
        match &unlimited {
            Ok(_) => {}
            Err(ErrKind::NoPath) => o.label("unlimited-no-path"),
            Err(_) => return o,
        }
        let needed = unlimited.as_ref().map(|r| r.iterations).unwrap_or(exp_u.len() as u64);
        // for a failed unlimited search the true iteration count is unknown (invisible expansions):
        // use a generous upper bound for 'the limit was not reached'
        let needed_ub = if unlimited.is_ok() { needed } else { 4 * sc.spec.net.n() as u64 + 4 };
        // expansion counts and tree sizes are only modelled for plain vertex-oriented searches
        let plain = !sc.alg.is_ksp() && !sc.edge_oriented;
        o.label_if(sc.edge_oriented, "edge-oriented");
        let identical = |r: &Result<PlainResult, ErrKind>| -> bool {
            match (r, &unlimited) {
                (Ok(a), Ok(_)) => Some(fingerprint_n(a, cmp_routes)) == fp_u,
                (Err(ErrKind::NoPath), Err(ErrKind::NoPath)) => true,
                _ => false,
            }
        };
        match &case.kind {
            LimitKind::Iterations | LimitKind::Combined { .. } => {
                let size_limit = if let LimitKind::Combined { size } = &case.kind { Some(*size) } else { None };
                o.label(if size_limit.is_some() { "kind-combined" } else { "kind-iterations" });
                // what does the size limit alone do?
                let size_alone_terminates = size_limit.map(|s| matches!(run_with(sc, size_model(s)).0, Err(ErrKind::Terminated(_))));
                let top = (needed_ub + 3).min(60);
                let mut succeeded_at: Option<u64> = None;
                for l in 0..=top {
                    let term = match size_limit {
                        Some(s) => combined_model(l, s),
                        None => iterations_model(l),
                    };
                    let (r, calls) = run_with(sc, term);
                    let ex = expansions(sc, &calls);
                    let ctx = json!({"limit": l, "size_limit": size_limit, "needed_iterations": needed, "observed_expansions": ex.len(),
                                     "result": r.as_ref().map(|x| x.routes.iter().map(|rt| route_ids(rt)).collect::<Vec<_>>()).map_err(|e| format!("{:?}", e))});
                    if plain && ex.len() as u64 > l {
                        o.fail(format!("C10/{}/more-expansions-than-the-iteration-limit", alg), ctx);
                        return o;
                    }
                    match &r {
                        Err(ErrKind::Terminated(msg)) => {
                            if let Some(prev) = succeeded_at {
                                if size_alone_terminates != Some(true) {
                                    o.fail(
                                        format!("C10/{}/success-not-monotone-in-the-limit", alg),
                                        json!({"ctx": ctx, "succeeded_at": prev}),
                                    );
                                    return o;
                                }
                            }
                            let names_iter = msg.contains("iteration limit");
                            let names_size = msg.contains("solution size limit");
                            if !(names_iter || names_size) {
                                o.fail(format!("C10/{}/termination-error-does-not-name-the-limit", alg), json!({"ctx": ctx, "message": msg}));
                                return o;
                            }
                            if size_limit.is_none() && !names_iter {
                                o.fail(format!("C10/{}/termination-error-names-the-wrong-limit", alg), json!({"ctx": ctx, "message": msg}));
                                return o;
                            }
                            if plain && l > needed_ub && size_alone_terminates != Some(true) {
                                o.fail(format!("C10/{}/terminated-although-the-limit-was-not-reached", alg), ctx);
                                return o;
                            }
                            if l > 0 && l < needed && needed >= 3 {
                                o.nontrivial = true;
                            }
                        }
                        other => {
                            if !identical(other) {
                                o.fail(
                                    format!("C10/{}/result-under-a-limit-differs-from-the-unlimited-result", alg),
                                    json!({"ctx": ctx, "unlimited": fp_u, "unlimited_error": unlimited.as_ref().err().map(|e| format!("{:?}", e))}),
                                );
                                return o;
                            }
                            if size_alone_terminates == Some(true) {
                                o.fail(format!("C10/{}/combined-limit-ignores-an-inner-limit", alg), ctx);
                                return o;
                            }
                            if succeeded_at.is_none() {
                                succeeded_at = Some(l);
                            }
                        }
                    }
                }
            }
            LimitKind::SolutionSize => {
                o.label("kind-solution-size");
                if !plain {
                    // sub-searches are limited individually: only "identical or terminated"
                    for s in 0..12usize {
                        let (r, _) = run_with(sc, size_model(s));
                        match &r {
                            Err(ErrKind::Terminated(msg)) if msg.contains("solution size limit") => {}
                            other => {
                                if !identical(other) {
                                    o.fail(format!("C10/{}/result-under-a-limit-differs-from-the-unlimited-result", alg), json!({"size_limit": s}));
                                    return o;
                                }
                            }
                        }
                    }
                    return o;
                }
                // replay the recorded expansion order to get the tree size after every expansion
                let built = match build_si(&sc.spec, BuildOpts::default()) {
                    Ok(b) => b,
                    Err(_) => return o,
                };
                let init = match built.si.state_model.initial_state() {
                    Ok(s) => s,
                    Err(_) => return o,
                };
                let m = sc.spec.net.m();
                let mut cost = vec![f64::INFINITY; m];
                for e in 0..m {
                    let et = if sc.reverse {
                        EdgeTraversal::reverse_traversal(EdgeId(e), None, &init, &built.si)
                    } else {
                        EdgeTraversal::forward_traversal(EdgeId(e), None, &init, &built.si)
                    };
                    if let Ok(et) = et {
                        cost[e] = et.total_cost().as_f64();
                    }
                }
                let mut glabel: HashMap<usize, f64> = HashMap::new();
                glabel.insert(sc.o, 0.0);
                let mut tree: HashSet<usize> = HashSet::new();
                let mut sizes: Vec<usize> = vec![]; // size after expansion i (1-based count)
                let mut max_deg = 0usize;
                for (v, edges) in &exp_u {
                    max_deg = max_deg.max(edges.len());
                    let gv = glabel.get(v).copied().unwrap_or(f64::INFINITY);
                    for e in edges {
                        if !sc.spec.edge_allowed(*e) {
                            continue;
                        }
                        let (s, d, _) = sc.spec.net.edges[*e];
                        let w = if sc.reverse { s } else { d };
                        let t = gv + cost[*e];
                        if t < glabel.get(&w).copied().unwrap_or(f64::INFINITY) {
                            glabel.insert(w, t);
                            tree.insert(w);
                        }
                    }
                    sizes.push(tree.len());
                }
                let final_size = unlimited.as_ref().ok().and_then(|r| r.trees.first().map(|t| t.len()));
                if let (Some(fs), Some(last)) = (final_size, sizes.last()) {
                    if fs != *last {
                        // the replay does not reproduce this search (e.g. ties resolved by state):
                        // do not judge sizes
                        o.label("size-replay-mismatch-not-judged");
                        return o;
                    }
                }
                let max_size = sizes.iter().cloned().max().unwrap_or(0);
                for s in 0..=(max_size + 2).min(60) {
                    let (r, calls) = run_with(sc, size_model(s));
                    let ex = expansions(sc, &calls);
                    // number of expansions after which the size first exceeds s
                    let first_exceed = sizes.iter().position(|z| *z > s).map(|i| i + 1);
                    let ctx = json!({"size_limit": s, "tree_size_after_each_expansion": sizes, "observed_expansions": ex.len(), "max_out_degree": max_deg});
                    match (&r, first_exceed) {
                        (Err(ErrKind::Terminated(msg)), Some(fe)) => {
                            if !msg.contains("solution size limit") {
                                o.fail(format!("C10/{}/termination-error-names-the-wrong-limit", alg), json!({"ctx": ctx, "message": msg}));
                                return o;
                            }
                            if ex.len() > fe {
                                o.fail(format!("C10/{}/search-continued-after-the-tree-exceeded-the-size-limit", alg), ctx);
                                return o;
                            }
                            if sizes[ex.len().saturating_sub(1).min(sizes.len() - 1)] > s + max_deg {
                                o.fail(format!("C10/{}/tree-exceeds-size-limit-by-more-than-one-out-degree", alg), ctx);
                                return o;
                            }
                            if s > 0 && sizes.len() >= 3 {
                                o.nontrivial = true;
                            }
                        }
                        (Err(ErrKind::Terminated(_)), None) => {
                            o.fail(format!("C10/{}/terminated-although-the-limit-was-not-reached", alg), ctx);
                            return o;
                        }
                        (other, fe) => {
                            if !identical(other) {
                                o.fail(format!("C10/{}/result-under-a-limit-differs-from-the-unlimited-result", alg), ctx);
                                return o;
                            }
                            // finishing is fine only if the search ended before the next check
                            if let Some(fe) = fe {
                                if fe < sizes.len() {
                                    o.fail(format!("C10/{}/size-limit-not-enforced", alg), ctx);
                                    return o;
                                }
                            }
                        }
                    }
                }
            }
            LimitKind::RuntimeConfig { .. } => {}
            LimitKind::Runtime { limit_ms, frequency, sleep_at } => {
                o.label("kind-runtime");
                if !plain {
                    return o;
                }
                let limit = Duration::from_millis(*limit_ms);
                let sleep_at = *sleep_at;
                let built = match build_si(
                    &sc.spec,
                    BuildOpts {
                        counting: true,
                        termination: Some(TerminationModel::QueryRuntimeLimit {
                            limit,
                            frequency: *frequency,
                        }),
                        traversal_wrapper: Some(Box::new(move |inner| {
                            Arc::new(SleepingTraversal {
                                inner,
                                count: AtomicU64::new(0),
                                sleep_at: Some(sleep_at),
                                sleep_for: limit * 3,
                            })
                        })),
                    },
                ) {
                    Ok(b) => b,
                    Err(_) => return o,
                };
                let r = run_plain(sc, &built.si);
                let calls = built.counting.map(|c| c.take()).unwrap_or_default();
                let ex = expansions(sc, &calls);
                // in which expansion of the unlimited run does traversal call number sleep_at happen?
                // (every valid frontier call is followed by one traversal)
                let mut valid_calls = 0u64;
                let mut sleep_expansion: Option<usize> = None;
                'outer: for (i, (_, edges)) in exp_u.iter().enumerate() {
                    for e in edges {
                        if sc.spec.edge_allowed(*e) {
                            if valid_calls == sleep_at {
                                sleep_expansion = Some(i + 1);
                                break 'outer;
                            }
                            valid_calls += 1;
                        }
                    }
                }
                if unlimited.is_err() || exp_u.len() as u64 != needed {
                    // some expansions are invisible to the frontier model: indices would not line up
                    o.label("runtime-not-judged-invisible-expansions");
                    return o;
                }
                let ctx = json!({"limit_ms": limit_ms, "frequency": frequency, "sleep_at_traversal": sleep_at, "sleep_in_expansion": sleep_expansion,
                                 "observed_expansions": ex.len(), "unlimited_expansions": exp_u.len(),
                                 "result": r.as_ref().map(|x| x.routes.iter().map(|rt| route_ids(rt)).collect::<Vec<_>>()).map_err(|e| format!("{:?}", e))});
                match sleep_expansion {
                    None => {
                        // the sleep never happens: the budget (10^4 x the run time) must not fire
                        if !identical(&r) {
                            o.fail(format!("C10/{}/runtime-limit-fired-without-exhausted-budget", alg), ctx);
                        }
                    }
                    Some(se) => {
                        o.nontrivial = exp_u.len() > se;
                        // next scheduled check: first iteration index i >= se with i % f == 0
                        let f = *frequency as usize;
                        let next_check = se.div_ceil(f) * f;
                        match &r {
                            Err(ErrKind::Terminated(msg)) => {
                                if !msg.contains("runtime limit") {
                                    o.fail(format!("C10/{}/termination-error-names-the-wrong-limit", alg), json!({"ctx": ctx, "message": msg}));
                                    return o;
                                }
                                if ex.len() > next_check {
                                    o.fail(format!("C10/{}/search-ran-past-the-next-scheduled-runtime-check", alg), ctx);
                                    return o;
                                }
                                if ex.len() < se {
                                    o.fail(format!("C10/{}/runtime-limit-fired-without-exhausted-budget", alg), ctx);
                                }
                            }
                            other => {
                                if !identical(other) {
                                    o.fail(format!("C10/{}/result-under-a-limit-differs-from-the-unlimited-result", alg), ctx);
                                    return o;
                                }
                                // finishing is only acceptable when no check was scheduled before the end
                                // (checks happen at iteration indices 0..=needed)
                                if next_check <= needed as usize {
                                    o.fail(format!("C10/{}/exhausted-runtime-budget-not-enforced-at-the-next-check", alg), ctx);
                                }
                            }
                        }
                    }
                }
            }
        }
        o
    }
}
