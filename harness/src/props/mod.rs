//! registry of the per-property checks
use crate::engine::{self, Prop, Tier};
use std::path::Path;

pub mod c01;
pub mod c02;
pub mod c03;
pub mod c04;
pub mod c05;
pub mod c06;
pub mod c07;
pub mod c08;
pub mod c09;
pub mod c10;
pub mod c11;
pub mod c12;
pub mod c13;
pub mod c14;
pub mod c15;
pub mod c16;
pub mod c17;
pub mod c18;
pub mod c19;
pub mod c20;

macro_rules! registry {
    ($( $id:literal => $ctor:expr ),* $(,)?) => {
        pub fn ids() -> Vec<&'static str> { vec![$($id),*] }
        pub fn run(id: &str, tier: Tier, seed: u64) -> Option<i32> {
            match id {
                $( $id => Some(engine::run_prop($ctor, tier, seed).exit_code), )*
                _ => None,
            }
        }
        pub fn replay(id: &str, path: &Path, strict: bool) -> Option<i32> {
            match id {
                $( $id => Some(engine::replay_prop($ctor, path, strict).exit_code), )*
                _ => None,
            }
        }
        pub fn fuzzer(id: &str) -> Option<Box<dyn crate::fuzzbridge::FuzzOne>> {
            match id {
                $( $id => Some(crate::fuzzbridge::make($ctor)), )*
                _ => None,
            }
        }
        pub fn unbounded_is_violation(id: &str) -> bool {
            match id {
                $( $id => $ctor.unbounded_is_violation(), )*
                _ => false,
            }
        }
    };
}

registry! {
    "C01" => c01::C01,
    "C02" => c02::C02,
    "C03" => c03::C03,
    "C04" => c04::C04,
    "C05" => c05::C05,
    "C06" => c06::C06,
    "C07" => c07::C07,
    "C08" => c08::C08,
    "C09" => c09::C09,
    "C10" => c10::C10,
    "C11" => c11::C11,
    "C12" => c12::C12,
    "C13" => c13::C13,
    "C14" => c14::C14,
    "C15" => c15::C15,
    "C16" => c16::C16,
    "C17" => c17::C17,
    "C18" => c18::C18,
    "C19" => c19::C19,
    "C20" => c20::C20,
}
