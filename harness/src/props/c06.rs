//! C06 — one response per query, independent of parallelism, order and schedule
use crate::appbuild::build_app;
use crate::batch::*;
use crate::engine::{pick_idx, CaseDir, Outcome, Prop, Tier};
use proptest::prelude::*;
use routee_compass::app::compass::compass_app_ops::apply_load_balancing_policy;
use routee_compass::app::compass::response::response_output_format::ResponseOutputFormat;
use routee_compass::app::compass::response::response_output_policy::ResponseOutputPolicy;
use routee_compass::app::compass::response::response_persistence_policy::ResponsePersistencePolicy;
use serde::{Deserialize, Serialize};
use serde_json::{json, Value};
use std::sync::Arc;

#[derive(Clone, Debug, Serialize, Deserialize)]
pub struct C06Case {
    pub app: BatchAppSpec,
    pub queries: Vec<QuerySpec>,
    pub perm: Vec<u16>,
    pub p1: usize,
    pub p2: usize,
    pub delays_us: Vec<u16>,
    pub discard: bool,
    /// weights for the direct load-balancing partition check (None = no estimate on that query)
    pub lb_weights: Vec<Option<f64>>,
    /// also run the batch through the string interface of the language bindings
    /// (CompassAppBindings::run_queries): Some(None) = the same queries as JSON text,
    /// Some(Some(i)) = with one text that is not valid JSON inserted at position i
    #[serde(default)]
    pub bindings: Option<Option<u16>>,
}

pub struct C06;

/// the language-binding interface over an application that already exists
struct Bound<'a>(&'a routee_compass::app::compass::compass_app::CompassApp);
impl routee_compass::app::bindings::CompassAppBindings for Bound<'_> {
    fn from_config_toml_string(_config_string: String, _original_file_path: String) -> Result<Self, routee_compass::app::compass::compass_app_error::CompassAppError> {
        Err(routee_compass::app::compass::compass_app_error::CompassAppError::InternalError("not used".into()))
    }
    fn app(&self) -> &routee_compass::app::compass::compass_app::CompassApp {
        self.0
    }
}

fn permute<T: Clone>(v: &[T], perm: &[u16]) -> Vec<T> {
    let mut idx: Vec<usize> = (0..v.len()).collect();
    // Fisher-Yates driven by the generated values
    for i in (1..idx.len()).rev() {
        let r = perm.get(i % perm.len().max(1)).copied().unwrap_or(0);
        let j = pick_idx(r, i + 1);
        idx.swap(i, j);
    }
    idx.into_iter().map(|i| v[i].clone()).collect()
}

fn read_jsonl(path: &std::path::Path) -> Result<Vec<Value>, String> {
    let text = std::fs::read_to_string(path).map_err(|e| e.to_string())?;
    text.lines()
        .filter(|l| !l.is_empty())
        .map(|l| serde_json::from_str::<Value>(l).map_err(|e| format!("unparseable line: {} ({})", &l[..l.len().min(80)], e)))
        .collect()
}

impl Prop for C06 {
    type Case = C06Case;
    fn id(&self) -> &'static str {
        "C06"
    }
    fn rule(&self) -> String {
        "generated: application built from files over a lattice network (optionally with an unreachable island) in 7 plugin/search configurations (ids; grid; vertex matching before / after grid with a haversine load balancer; inject + grid + custom numeric balancer; edge orientation with edge matching; speed model with a small iteration limit) x batch of 1-24 queries mixing valid, unreachable, out-of-range, far-away, ill-typed, missing-field, terminated and grid-search queries (1-6 siblings) x a permutation x parallelism 1-16 twice (configuration and per run) x per-query delays injected by a harness output plugin x both persistence policies (discard: responses read back from a JSON-lines file). Oracles: response count per query from a reference model of the configured input pipeline; each response carries its request; multisets of canonical responses equal between run-alone (parallelism 1, one query per call), the batch and the permuted batch; load balancing partitions any weighted query list. Enumerated: all (batch size 1-24) x (parallelism 1-16) pairs with a simple query mix. non-trivial = batch larger than a parallelism >= 2 containing at least one failing and one succeeding query".to_string()
    }
    fn cases(&self, tier: Tier) -> u32 {
        tier.pick(10_000, 150_000)
    }
    fn exhaustive_note(&self, _tier: Tier) -> Option<String> {
        Some("the (batch size, parallelism) plane for sizes 1..24 and parallelism 1..16 with a fixed simple query mix (chunk arithmetic)".into())
    }
    fn assumptions(&self) -> Vec<String> {
        vec![
            "the worker-pool schedule is perturbed (per-query delays, 16 threads), not enumerated; responses are compared as order-free multisets".into(),
            "k-shortest-path algorithms are excluded here (their alternatives depend on hash iteration order)".into(),
            "coordinates are generated clearly inside (a few metres) or clearly outside (hundreds of km) the 2 km matching tolerance".into(),
        ]
    }
    fn enumerated(&self, _tier: Tier) -> Box<dyn Iterator<Item = C06Case> + '_> {
        let mut v = vec![];
        for n in 1usize..=24 {
            for p in 1usize..=16 {
                let queries: Vec<QuerySpec> = (0..n)
                    .map(|i| QuerySpec {
                        origin: Place::Vertex((i * 4099) as u16),
                        destination: if i % 5 == 4 { Place::OutOfRange } else { Place::Vertex((i * 7919 + 13) as u16) },
                        grid_destinations: vec![],
                        grid_extra: 0,
                        malform: Malform::None,
                    })
                    .collect();
                v.push(C06Case {
                    app: BatchAppSpec {
                        kind: 0,
                        n: 9,
                        island: 0,
                        lens: vec![7, 9000, 300],
                        parallelism: p,
                        astar: false,
                        with_summary: false,
                        iteration_limit: None,
                        variant: 0,
                    },
                    queries,
                    perm: vec![(n * 31 + p) as u16, 77, 30000],
                    p1: p,
                    p2: (p % 16) + 1,
                    delays_us: vec![],
                    discard: false,
                    lb_weights: vec![],
                    bindings: None,
                });
            }
        }
        Box::new(v.into_iter())
    }
    fn strategy(&self, _tier: Tier) -> BoxedStrategy<C06Case> {
        (
            // 8/9: energy model with the shared prediction cache (each weighted like one plain kind)
            batch_app_strategy(vec![0, 1, 2, 3, 4, 5, 6, 0, 1, 2, 3, 4, 5, 6, 8, 9]),
            proptest::collection::vec(query_strategy(), 1..=24),
            proptest::collection::vec(any::<u16>(), 8),
            1usize..=16,
            1usize..=16,
            proptest::collection::vec(prop_oneof![1 => Just(0u16), 2 => 0u16..300], 8),
            proptest::bool::weighted(0.3),
            proptest::collection::vec(proptest::option::weighted(0.8, prop_oneof![Just(0.0f64), Just(1.0), (0.0f64..100.0), Just(1e12)]), 0..30),
            proptest::option::weighted(0.25, proptest::option::weighted(0.5, any::<u16>())),
        )
            .prop_map(|(app, queries, perm, p1, p2, delays_us, discard, lb_weights, bindings)| C06Case {
                app,
                queries,
                perm,
                p1,
                p2,
                delays_us,
                discard,
                lb_weights,
                bindings,
            })
            .boxed()
    }
    fn check(&self, c: &C06Case) -> Outcome {
        let mut o = Outcome::new();
        o.label(format!("config-kind-{}", c.app.kind));
        o.label_if(c.discard, "discard-policy");
        // (d) load balancing is a partition, for any weights
        if !c.lb_weights.is_empty() {
            let qs: Vec<Value> = c
                .lb_weights
                .iter()
                .enumerate()
                .map(|(i, w)| match w {
                    Some(w) => json!({"qid": i, "query_weight_estimate": w}),
                    None => json!({"qid": i}),
                })
                .collect();
            match apply_load_balancing_policy(&qs, c.p1, 1.0) {
                Ok(bins) => {
                    let mut seen = vec![0usize; qs.len()];
                    for b in &bins {
                        for q in b {
                            if let Some(pos) = qs.iter().position(|x| std::ptr::eq(x, *q)) {
                                seen[pos] += 1;
                            }
                        }
                    }
                    if bins.len() != c.p1 || seen.iter().any(|s| *s != 1) {
                        o.fail(
                            "C06/load-balancing/not-a-partition",
                            json!({"parallelism": c.p1, "weights": c.lb_weights, "occurrences": seen, "bins": bins.len()}),
                        );
                        return o;
                    }
                }
                Err(e) => {
                    o.fail("C06/load-balancing/error", json!({"error": e.to_string()}));
                    return o;
                }
            }
        }
        let dir = CaseDir::new();
        let (mut app, _files) = match build_app(&c.app.app_spec(), &dir) {
            Ok(a) => a,
            Err(e) => {
                o.fail("C06/app-build-error", json!({"error": e}));
                return o;
            }
        };
        app.output_plugins.push(Arc::new(JitterOutputPlugin {
            delays_us: c.delays_us.clone(),
        }));
        // energy configurations: "run alone" means alone on a freshly built application (the
        // prediction cache is state of the application), which is costly: at most 6 queries
        let energy = c.app.kind >= 8;
        let cq: &[QuerySpec] = if energy { &c.queries[..c.queries.len().min(6)] } else { &c.queries[..] };
        // a lossy cache (several speeds per key) is reported under its own signatures
        let pre = if c.app.kind == 9 { "C06/prediction-cache-shared-key" } else { "C06" };
        let queries: Vec<Value> = cq
            .iter()
            .enumerate()
            .map(|(i, q)| query_json(&c.app, q, i))
            .collect();
        let exps: Vec<Expansion> = cq.iter().map(|q| expansion(&c.app, q)).collect();
        // run alone
        let mut alone: Vec<Value> = vec![];
        let mut family_dropped_seen = 0usize;
        for (i, q) in queries.iter().enumerate() {
            let fresh;
            let alone_app = if energy {
                let d2 = CaseDir::new();
                fresh = match build_app(&c.app.app_spec(), &d2) {
                    Ok((a, _)) => a,
                    Err(e) => {
                        o.fail("C06/app-build-error", json!({"error": e}));
                        return o;
                    }
                };
                &fresh
            } else {
                &app
            };
            let r = match run_app(alone_app, vec![q.clone()], Some(1)) {
                Ok(r) => r,
                Err(e) => {
                    o.fail("C06/run-returned-error-for-a-single-query", json!({"query": q, "error": e}));
                    return o;
                }
            };
            let ex = &exps[i];
            if r.len() != ex.correct {
                if r.len() == ex.family_dropped && ex.family_dropped != ex.correct {
                    family_dropped_seen += 1;
                    o.fail(
                        "C06/input-pipeline/sibling-failure-drops-family",
                        json!({"query": q, "responses": r.len(), "expected_one_per_sibling": ex.correct, "config_kind": c.app.kind}),
                    );
                } else {
                    o.fail(
                        "C06/response-count-for-query",
                        json!({"query": q, "responses": r.len(), "expected": ex.correct, "config_kind": c.app.kind}),
                    );
                    return o;
                }
            }
            // (b) each response carries the request it answers
            for resp in &r {
                let req = resp.get("request");
                let ok = match (req.and_then(|x| x.as_object()), q.as_object()) {
                    (Some(req), Some(orig)) => orig.iter().all(|(k, v)| {
                        matches!(k.as_str(), "grid_search" | "destination_vertex" | "destination_x" | "destination_y" | "injected") || req.get(k) == Some(v)
                    }),
                    _ => false,
                };
                if !ok {
                    o.fail("C06/response-does-not-carry-its-request", json!({"query": q, "response": resp}));
                    return o;
                }
            }
            alone.extend(r);
        }
        o.label_if(exps.iter().any(|e| e.sibling_mixed), "sibling-mixed-outcome");
        // batch runs
        let out_file = dir.file("responses.jsonl");
        if c.discard {
            app.response_persistence_policy = ResponsePersistencePolicy::DiscardResponseFromMemory;
            app.response_output_policy = ResponseOutputPolicy::File {
                filename: out_file.to_string_lossy().to_string(),
                format: ResponseOutputFormat::Json {
                    newline_delimited: true,
                },
                file_flush_rate: None,
            };
        }
        let mut run_batch = |qs: Vec<Value>, p: usize, tag: &str| -> Result<Vec<Value>, (String, Value)> {
            if c.discard {
                let _ = std::fs::remove_file(&out_file);
            }
            let r = run_app(&app, qs, Some(p)).map_err(|e| (format!("C06/run-returned-error-for-the-{}", tag), json!({"error": e})))?;
            if c.discard {
                // the returned list only holds the input-plugin errors; everything is in the file
                read_jsonl(&out_file).map_err(|e| (format!("C06/discard-policy/file-unreadable-{}", tag), json!({"error": e})))
            } else {
                Ok(r)
            }
        };
        let batch = match run_batch(queries.clone(), c.p1, "batch") {
            Ok(r) => r,
            Err((s, d)) => {
                o.fail(s, d);
                return o;
            }
        };
        let permuted = match run_batch(permute(&queries, &c.perm), c.p2, "permuted-batch") {
            Ok(r) => r,
            Err((s, d)) => {
                o.fail(s, d);
                return o;
            }
        };
        // the string interface of the language bindings: one response text per query, or the
        // whole call is refused - never fewer responses than queries without an error
        if let (Some(invalid_at), false) = (&c.bindings, c.discard) {
            use routee_compass::app::bindings::CompassAppBindings;
            o.label("through-bindings-string-interface");
            let mut texts: Vec<String> = queries.iter().map(|q| q.to_string()).collect();
            if let Some(i) = invalid_at {
                o.label("bindings-invalid-json-text");
                let at = crate::engine::pick_idx(*i, texts.len() + 1);
                texts.insert(at, r#"{"origin_vertex": 0, "destination_vertex": NaN}"#.to_string());
            }
            let n_texts = texts.len();
            let cfg = json!({"parallelism": c.p1}).to_string();
            match Bound(&app).run_queries(texts, Some(cfg)) {
                Err(_) => {
                    if invalid_at.is_none() {
                        o.fail("C06/bindings/valid-batch-refused", json!({"queries": n_texts}));
                        return o;
                    }
                }
                Ok(rs) => {
                    let parsed: Vec<Value> = rs.iter().filter_map(|t| serde_json::from_str(t).ok()).collect();
                    let expected: usize = exps.iter().map(|e| e.correct).sum::<usize>() + invalid_at.map(|_| 1).unwrap_or(0);
                    if family_dropped_seen == 0 && (parsed.len() != rs.len() || rs.len() != expected) {
                        o.fail(
                            "C06/bindings/response-count",
                            json!({"query_texts": n_texts, "expected_responses": expected, "responses": rs.len(), "parseable": parsed.len(), "invalid_text_inserted": invalid_at.is_some()}),
                        );
                        return o;
                    }
                    if invalid_at.is_none() && !energy && family_dropped_seen == 0 && multiset(&parsed) != multiset(&batch) {
                        o.fail("C06/bindings/responses-differ-from-run", json!({"responses": rs.len()}));
                        return o;
                    }
                }
            }
        }
        let (ma, mb, mc) = (multiset(&alone), multiset(&batch), multiset(&permuted));
        let diff = |x: &std::collections::BTreeMap<String, usize>, y: &std::collections::BTreeMap<String, usize>| -> Vec<String> {
            let mut d = vec![];
            for (k, v) in x {
                if y.get(k) != Some(v) {
                    // show the neighbourhood of the first difference from the closest counterpart
                    let best = y
                        .keys()
                        .map(|k2| k.bytes().zip(k2.bytes()).take_while(|(a, b)| a == b).count())
                        .max()
                        .unwrap_or(0);
                    let from = best.saturating_sub(120);
                    let to = (best + 120).min(k.len());
                    let (from, to) = ((0..=from).rev().find(|i| k.is_char_boundary(*i)).unwrap_or(0), (to..=k.len()).find(|i| k.is_char_boundary(*i)).unwrap_or(k.len()));
                    d.push(format!("{}x {} ... [differs at byte {}] ...{}", v, &k[..k.len().min(160)], best, &k[from..to]));
                }
            }
            d.truncate(3);
            d
        };
        let n_fail = alone.iter().filter(|r| is_error(r)).count();
        o.nontrivial = queries.len() > c.p1.min(c.p2) && c.p1.max(c.p2) >= 2 && n_fail > 0 && n_fail < alone.len();
        if family_dropped_seen == 0 {
            let total: usize = exps.iter().map(|e| e.correct).sum();
            if batch.len() != total || permuted.len() != total {
                o.fail(
                    "C06/response-count-for-batch",
                    json!({"expected": total, "batch": batch.len(), "permuted": permuted.len(), "parallelism": [c.p1, c.p2], "config_parallelism": c.app.parallelism}),
                );
                return o;
            }
        }
        if ma != mb {
            o.fail(
                format!("{}/batch-responses-differ-from-run-alone", pre),
                json!({"parallelism": c.p1, "config_parallelism": c.app.parallelism, "only_alone": diff(&ma, &mb), "only_batch": diff(&mb, &ma), "counts": [alone.len(), batch.len()]}),
            );
            return o;
        }
        if ma != mc {
            o.fail(
                format!("{}/permuted-batch-responses-differ", pre),
                json!({"parallelism": c.p2, "only_alone": diff(&ma, &mc), "only_permuted": diff(&mc, &ma), "counts": [alone.len(), permuted.len()]}),
            );
        }
        o
    }
}
