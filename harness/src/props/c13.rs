//! C13 — k-shortest-paths returns up to k valid, distinct routes, best first, and ends
use crate::engine::{close, Outcome, Prop, Tier};
use crate::gen::*;
use crate::refmodel::*;
use crate::searchrun::*;
use crate::simodel::*;
use proptest::prelude::*;
use routee_compass_core::algorithm::search::edge_traversal::EdgeTraversal;
use routee_compass_core::model::network::EdgeId;
use routee_compass_core::model::unit::as_f64::AsF64;
use serde_json::json;
use std::collections::{HashMap, HashSet};

pub struct C13;

fn ref_cosine(a: &[usize], b: &[usize], w: &dyn Fn(usize) -> f64) -> f64 {
    let am: HashMap<usize, f64> = a.iter().map(|e| (*e, w(*e))).collect();
    let bm: HashMap<usize, f64> = b.iter().map(|e| (*e, w(*e))).collect();
    let mut num = 0.0;
    for (e, x) in &am {
        if let Some(y) = bm.get(e) {
            num += x * y;
        }
    }
    let na: f64 = am.values().map(|x| x * x).sum::<f64>().sqrt();
    let nb: f64 = bm.values().map(|x| x * x).sum::<f64>().sqrt();
    num / (na * nb)
}

pub fn ksp_strategy(max_n: usize) -> BoxedStrategy<SearchCase> {
    // underlying A* only on metric networks (the first route must be least-cost)
    any::<bool>()
        .prop_flat_map(move |astar| {
            let net = if astar {
                raw_net(max_n)
                    .prop_map(|mut r| {
                        // bias to shapes with many alternatives: lattice, ladder, dense
                        r.shape = [1u8, 5, 6, 1, 5, 0, 3][r.shape as usize % 7];
                        materialise(&r, true)
                    })
                    .boxed()
            } else {
                raw_net(max_n)
                    .prop_map(|mut r| {
                        r.shape = [1u8, 5, 6, 1, 5, 0, 3][r.shape as usize % 7];
                        materialise(&r, false)
                    })
                    .boxed()
            };
            (Just(astar), net)
        })
        .prop_flat_map(|(astar, net)| {
            let m = net.m();
            (
                Just(astar),
                Just(net),
                trav_strategy(m, true),
                proptest::option::weighted(0.4, turn_delay_strategy(m)),
                state_strategy(),
                (1usize..=6, sim_strategy(), ksp_term_strategy(), proptest::bool::weighted(0.25)),
                (any::<bool>(), any::<u16>(), any::<u16>(), proptest::option::weighted(0.2, 1usize..=6)),
            )
        })
        .prop_flat_map(|(astar, net, trav, access, state, ksp, misc)| {
            let has_time = matches!(trav, TravSpec::Speed { .. });
            let m = net.m();
            (
                Just((astar, net, trav, access, state, ksp, misc)),
                cost_nonneg(m, has_time),
            )
        })
        .prop_map(|((astar, net, trav, access, state, ksp, misc), cost)| {
            let (k, sim, term, yens) = ksp;
            let (edge_o, a, b, query_k) = misc;
            let has_time = matches!(trav, TravSpec::Speed { .. });
            let n = net.n();
            let m = net.m();
            let edge_oriented = edge_o && m >= 2;
            let (o, d) = if edge_oriented { od_pair(m, a, b) } else { od_pair(n, a, b) };
            let underlying = Box::new(if astar { AlgSpec::AStar { wf: Some(1.0) } } else { AlgSpec::Dijkstra });
            let alg = if yens {
                AlgSpec::Yens { k, underlying, sim, term }
            } else {
                AlgSpec::SingleVia { k, underlying, sim, term }
            };
            SearchCase {
                spec: SiSpec {
                    net,
                    trav,
                    access: if has_time { access } else { None },
                    cost,
                    state,
                    allowed: None,
                    restricted_turns: vec![],
                },
                alg,
                edge_oriented,
                reverse: false,
                o,
                d: Some(d),
                query_wf: None,
                query_k,
            }
        })
        .boxed()
}

impl Prop for C13 {
    type Case = SearchCase;
    fn id(&self) -> &'static str {
        "C13"
    }
    fn rule(&self) -> String {
        "generated: networks biased to lattices, ladders and small dense graphs (many alternatives) plus chains and sparse graphs (1- and 2-edge shortest paths, dead ends) x k 1-6 from configuration or query x {single-via, Yen} x underlying {Dijkstra, A* factor 1 on metric networks} x similarity {default, accept-all, edge-id cosine, distance-weighted cosine; thresholds 0-1.2} x termination {default, exact, max-iteration, factor} x cost model with optional turn delays x vertex/edge orientation. Validity predicates only (alternatives depend on hash order): count in 1..k, first route least-cost, every route a loop-free contiguous walk with correct accumulation, pairwise distinct, pairwise below the similarity threshold (own cosine), accept-all returns at least as many routes as the threshold on the same instance, unreachable => no-path error; Yen runs in a killable helper process. non-trivial = k >= 2 and at least 3 distinct simple origin-destination paths exist".to_string()
    }
    fn cases(&self, tier: Tier) -> u32 {
        tier.pick(40_000, 1_500_000)
    }
    fn unbounded_is_violation(&self) -> bool {
        true
    }
    fn strategy(&self, tier: Tier) -> BoxedStrategy<SearchCase> {
        ksp_strategy(tier.pick(12, 30))
    }
    fn assumptions(&self) -> Vec<String> {
        vec![
            "k = 0 is outside the domain (the statement speaks of k from 1 upward)".into(),
            "for edge-oriented queries similarity is judged on the part of the routes between the (shared) origin and destination edges, which is what the algorithm compares".into(),
            "route pairs within 1e-9 of the threshold are not judged".into(),
            "Yen's algorithm is executed in a helper process with a 400 ms wall budget per case (typical cases take < 1 ms); exceeding it is reported under the listed finding C13/yens/unbounded".into(),
        ]
    }
    fn check(&self, case: &SearchCase) -> Outcome {
        let mut o = Outcome::new();
        let g = case.spec.net.ref_graph();
        let yens = case.alg.is_yens();
        let algn = if yens { "yens" } else { "single-via" };
        let k = case.effective_k();
        o.label(format!("alg-{}", algn));
        o.label(format!("k-{}", k));
        o.label(if case.edge_oriented { "edge-oriented" } else { "vertex-oriented" });
        let (sim, underlying_astar) = match &case.alg {
            AlgSpec::SingleVia { sim, underlying, .. } | AlgSpec::Yens { sim, underlying, .. } => {
                (sim.clone(), matches!(**underlying, AlgSpec::AStar { .. }))
            }
            _ => (None, false),
        };
        o.label(match &sim {
            None => "similarity-default",
            Some(SimSpec::AcceptAll) => "similarity-accept-all",
            Some(SimSpec::EdgeCos(_)) => "similarity-edge-cosine",
            Some(SimSpec::DistCos(_)) => "similarity-distance-cosine",
        });
        o.label_if(underlying_astar, "underlying-a-star");
        let built = match build_si(&case.spec, BuildOpts::default()) {
            Ok(b) => b,
            Err(_) => return o,
        };
        let si = &built.si;
        let (s_v, t_v) = case.vertex_endpoints();
        let t_v = t_v.unwrap();
        if case.edge_oriented && s_v == t_v {
            o.label("adjacent-edges");
            return o;
        }
        let reach = g.reach(s_v, &|_| true);
        let n_paths = count_simple_paths(&g, s_v, t_v, 3);
        o.nontrivial = k >= 2 && n_paths >= 3;
        let sig = |what: &str| format!("C13/{}/{}", algn, what);
        let res = match run_search(case, si) {
            RunOutcome::Done(r) => r,
            RunOutcome::YensShortPathNotExecuted(len) => {
                o.label("short-route(<=2 edges)");
                o.fail(
                    "C13/yens/short-path-unbounded-or-underflow",
                    json!({"shortest_path_edges": len, "k": k, "note": "not executed: the implementation underflows (1 edge) or never leaves its outer loop (2 edges)"}),
                );
                return o;
            }
            RunOutcome::YensUnbounded => {
                o.fail("C13/yens/unbounded", json!({"k": k, "budget_ms": YENS_BUDGET_MS}));
                return o;
            }
            RunOutcome::YensPanic(loc, msg) => {
                let sigp = if loc.contains("yens_algorithm.rs") && msg.contains("subtract with overflow") {
                    "C13/yens/short-accepted-path-underflow".to_string()
                } else {
                    format!("C13/yens/panic@{}", loc)
                };
                o.fail(sigp, json!({"location": loc, "message": msg}));
                return o;
            }
            RunOutcome::IsolationFailed(e) => {
                o.label(format!("isolation-failed:{}", &e[..e.len().min(30)]));
                return o;
            }
        };
        let res = match (res, reach[t_v]) {
            (Err(ErrKind::NoPath), false) => {
                o.label("unreachable-no-path");
                return o;
            }
            (Err(e), false) => {
                o.fail(sig("unreachable-destination-without-no-path-error"), json!({"error": format!("{:?}", e)}));
                return o;
            }
            (Ok(r), false) => {
                if r.routes.iter().any(|x| !x.is_empty()) {
                    o.fail(sig("route-to-unreachable-destination"), json!({}));
                }
                return o;
            }
            (Err(e), true) => {
                o.fail(
                    sig("answerable-query-turned-into-error"),
                    json!({"error": format!("{:?}", e), "k": k}),
                );
                return o;
            }
            (Ok(r), true) => r,
        };
        let routes: Vec<Vec<usize>> = res.routes.iter().map(|r| route_ids(r)).collect();
        let ctx = json!({"k": k, "routes": routes, "similarity": format!("{:?}", sim)});
        if routes.is_empty() {
            o.fail(sig("no-route-for-reachable-destination"), ctx);
            return o;
        }
        if routes.len() > k {
            o.fail(sig("more-than-k-routes"), ctx.clone());
        }
        o.label(format!("returned-{}", routes.len().min(7)));
        // validity of each route
        for (i, (ids, route)) in routes.iter().zip(res.routes.iter()).enumerate() {
            let verdict = if case.edge_oriented {
                walk_edge_oriented(&g, ids, case.o, case.d.unwrap())
            } else {
                walk_forward(&g, ids, case.o, case.d.unwrap())
            };
            if let Err(reason) = verdict {
                let reason = reason.split(':').next().unwrap_or("").to_string();
                o.fail(sig(&format!("invalid-route/{}", reason)), json!({"ctx": ctx, "route_index": i}));
                continue;
            }
            // loop-freeness concerns the part the algorithm chooses: for edge-oriented queries the
            // user-given origin/destination edges may themselves close a loop (round trips)
            let chosen: Vec<usize> = if case.edge_oriented && ids.len() >= 2 { ids[1..ids.len() - 1].to_vec() } else { ids.clone() };
            if visits_vertex_twice(&g, &chosen) {
                o.fail(sig("route-with-loop"), json!({"ctx": ctx, "route_index": i}));
                continue;
            }
            o.label_if(ids.len() <= 2, "short-route(<=2 edges)");
            let mut probe = Outcome::new();
            crate::props::c03::check_route_accumulation(&mut probe, case, si, route, i, &format!("C13/{}/accumulation", algn));
            if let Some(f) = probe.failure {
                // keyed by algorithm only: details are in C03
                o.fail(sig("state-or-cost-not-accumulated-along-route"), f.detail);
            }
        }
        // pairwise distinct
        let set: HashSet<&Vec<usize>> = routes.iter().collect();
        if set.len() != routes.len() {
            o.fail(sig("duplicate-route"), ctx.clone());
        }
        // first route is least-cost
        let cost_of = |r: &Vec<EdgeTraversal>| -> f64 { r.iter().map(|e| e.total_cost().as_f64()).sum() };
        let c0 = cost_of(&res.routes[0]);
        if case.spec.access.is_none() {
            if let Ok(init) = si.state_model.initial_state() {
                let mut cost = vec![f64::INFINITY; g.m()];
                for e in 0..g.m() {
                    if let Ok(et) = EdgeTraversal::forward_traversal(EdgeId(e), None, &init, si) {
                        cost[e] = et.total_cost().as_f64();
                    }
                }
                let dist = ref_sssp(&g, &cost, &|_| true, s_v);
                if !close(c0, dist[t_v], 1e-9, 1e-9) {
                    o.fail(
                        sig("first-route-is-not-least-cost"),
                        json!({"ctx": ctx, "first_route_cost": c0, "reference_minimum": dist[t_v]}),
                    );
                }
            }
        } else {
            // with turn delays an edge's cost depends on how it was reached; least cost is only
            // claimed (C02) for history-independent costs, so the first route is not judged here
            o.label("first-route-optimality-not-judged(turn-delays)");
        }
        // similarity threshold (own cosine)
        let inner = |ids: &Vec<usize>| -> Vec<usize> {
            if case.edge_oriented && ids.len() >= 2 {
                ids[1..ids.len() - 1].to_vec()
            } else {
                ids.clone()
            }
        };
        let threshold = match &sim {
            Some(SimSpec::EdgeCos(t)) => Some((*t, false)),
            Some(SimSpec::DistCos(t)) => Some((*t, true)),
            _ => None,
        };
        if let Some((t, weighted)) = threshold {
            let w = |e: usize| if weighted { case.spec.net.edges[e].2 } else { 1.0 };
            'pairs: for i in 0..routes.len() {
                for j in (i + 1)..routes.len() {
                    let c = ref_cosine(&inner(&routes[i]), &inner(&routes[j]), &w);
                    if c.is_finite() && c >= t + 1e-9 {
                        o.fail(
                            sig("routes-more-similar-than-threshold"),
                            json!({"ctx": ctx, "pair": [i, j], "cosine": c, "threshold": t}),
                        );
                        break 'pairs;
                    }
                    o.label_if(c.is_finite() && c > 0.0, "overlapping-alternatives");
                }
            }
            // metamorphic: accept-all returns at least as many routes
            let mut aa = case.clone();
            match &mut aa.alg {
                AlgSpec::SingleVia { sim, .. } | AlgSpec::Yens { sim, .. } => *sim = None,
                _ => {}
            }
            if !yens {
                if let Ok(r2) = run_plain(&aa, si) {
                    o.label_if(r2.routes.len() > routes.len(), "alternatives-rejected-by-similarity");
                    if r2.routes.len() < routes.len().min(k) {
                        o.fail(
                            sig("accept-all-returns-fewer-routes-than-a-threshold"),
                            json!({"ctx": ctx, "accept_all_routes": r2.routes.iter().map(|r| route_ids(r)).collect::<Vec<_>>()}),
                        );
                    }
                }
            }
        }
        o
    }
}
