//! C20 — every output format renders the same route, with geometry in edge order
use crate::appbuild::{uuid_of, write_text};
use crate::engine::{CaseDir, Outcome, Prop, Tier};
use crate::searchrun::*;
use crate::simodel::*;
use proptest::prelude::*;
use routee_compass::app::compass::compass_app_error::CompassAppError;
use routee_compass::app::search::search_app_result::SearchAppResult;
use routee_compass::plugin::output::default::summary::plugin::SummaryOutputPlugin;
use routee_compass::plugin::output::default::traversal::plugin::TraversalPlugin;
use routee_compass::plugin::output::default::traversal::traversal_output_format::TraversalOutputFormat;
use routee_compass::plugin::output::default::uuid::plugin::UUIDOutputPlugin;
use routee_compass::plugin::output::output_plugin::OutputPlugin;
use routee_compass_core::algorithm::search::search_algorithm_result::SearchAlgorithmResult;
use routee_compass_core::algorithm::search::search_instance::SearchInstance;
use serde::{Deserialize, Serialize};
use serde_json::{json, Value};

#[derive(Clone, Debug, Serialize, Deserialize)]
pub struct C20Case {
    pub search: SearchCase,
    /// number of geometry points per edge (2..6)
    pub points: Vec<u8>,
    /// keep only this many rows of the geometry table (None = all)
    pub geometry_rows: Option<usize>,
    pub with_tree: bool,
    /// true: an edge's geometry starts at its source vertex's point and ends at its destination
    /// vertex's point (consecutive edges share the junction point, a self loop of two points is a
    /// repeated point), as real road geometries do; false: every point is unique to its edge
    #[serde(default)]
    pub shared_junctions: bool,
}

pub struct C20;

const FORMATS: [(&str, TraversalOutputFormat); 5] = [
    ("edge_id", TraversalOutputFormat::EdgeId),
    ("json", TraversalOutputFormat::Json),
    ("geo_json", TraversalOutputFormat::GeoJson),
    ("wkt", TraversalOutputFormat::Wkt),
    ("wkb", TraversalOutputFormat::Wkb),
];

/// coordinates encode edge id and point index, so order and provenance are readable;
/// `ends` = (source vertex, destination vertex) puts the end points on the vertices' own points
fn geometry(edge: usize, n_points: u8, ends: Option<(usize, usize)>) -> Vec<(f32, f32)> {
    let n = n_points.clamp(2, 6) as usize;
    let mut pts: Vec<(f32, f32)> = (0..n)
        .map(|i| (-100.0 + edge as f32 + i as f32 * 0.0625, 30.0 + i as f32 * 0.125 + edge as f32 * 0.001953125))
        .collect();
    if ends.is_none() && n >= 3 && edge % 5 == 2 {
        // a closed geometry (a loop that returns to its first point): stored geometries are
        // reproduced whatever their shape
        pts[n - 1] = pts[0];
    }
    if let Some((s, d)) = ends {
        let vp = |v: usize| (-120.0 + v as f32 * 0.03125, 10.0 + v as f32 * 0.0625);
        pts[0] = vp(s);
        pts[n - 1] = vp(d);
        // every third such geometry stores a point twice in a row (a digitising artefact that
        // real tables contain): stored geometries are reproduced as stored
        if n >= 3 && edge % 3 == 1 {
            pts[1] = pts[0];
        }
    }
    pts
}

fn geometry_file_text(m: usize, points: &[u8], rows: Option<usize>, ends: &dyn Fn(usize) -> Option<(usize, usize)>) -> String {
    let mut s = String::new();
    for e in 0..rows.unwrap_or(m).min(m) {
        let pts = geometry(e, points.get(e).copied().unwrap_or(2), ends(e));
        let body: Vec<String> = pts.iter().map(|(x, y)| format!("{} {}", x, y)).collect();
        s.push_str(&format!("LINESTRING ({})\n", body.join(", ")));
    }
    s
}

fn parse_coord_list(s: &str) -> Option<Vec<(f64, f64)>> {
    let mut out = vec![];
    for pair in s.split(',') {
        let mut it = pair.split_whitespace();
        let x: f32 = it.next()?.parse().ok()?;
        let y: f32 = it.next()?.parse().ok()?;
        out.push((x as f64, y as f64));
    }
    Some(out)
}

/// minimal WKT reader for LINESTRING(...) and MULTILINESTRING((...),(...))
fn parse_wkt(s: &str) -> Option<Vec<Vec<(f64, f64)>>> {
    let t = s.trim();
    if let Some(rest) = t.strip_prefix("MULTILINESTRING") {
        let rest = rest.trim();
        if rest == "EMPTY" {
            return Some(vec![]);
        }
        let inner = rest.strip_prefix('(')?.strip_suffix(')')?;
        let mut out = vec![];
        let mut depth = 0;
        let mut cur = String::new();
        for c in inner.chars() {
            match c {
                '(' => {
                    depth += 1;
                    if depth == 1 {
                        cur.clear();
                        continue;
                    }
                }
                ')' => {
                    depth -= 1;
                    if depth == 0 {
                        out.push(parse_coord_list(&cur)?);
                        continue;
                    }
                }
                _ => {}
            }
            if depth >= 1 {
                cur.push(c);
            }
        }
        Some(out)
    } else if let Some(rest) = t.strip_prefix("LINESTRING") {
        let rest = rest.trim();
        if rest == "EMPTY" {
            return Some(vec![vec![]]);
        }
        let inner = rest.strip_prefix('(')?.strip_suffix(')')?;
        Some(vec![parse_coord_list(inner)?])
    } else {
        None
    }
}

/// minimal little-endian WKB reader (LineString = 2, MultiLineString = 5) from upper-case hex
fn parse_wkb_hex(h: &str) -> Option<Vec<Vec<(f64, f64)>>> {
    if h.len() % 2 != 0 {
        return None;
    }
    let bytes: Vec<u8> = (0..h.len() / 2)
        .map(|i| u8::from_str_radix(&h[2 * i..2 * i + 2], 16).ok())
        .collect::<Option<Vec<u8>>>()?;
    fn line(b: &[u8], pos: &mut usize) -> Option<Vec<(f64, f64)>> {
        if *b.get(*pos)? != 1 {
            return None;
        }
        *pos += 1;
        let ty = u32::from_le_bytes(b.get(*pos..*pos + 4)?.try_into().ok()?);
        *pos += 4;
        if ty != 2 {
            return None;
        }
        let n = u32::from_le_bytes(b.get(*pos..*pos + 4)?.try_into().ok()?) as usize;
        *pos += 4;
        let mut out = vec![];
        for _ in 0..n {
            let x = f64::from_le_bytes(b.get(*pos..*pos + 8)?.try_into().ok()?);
            let y = f64::from_le_bytes(b.get(*pos + 8..*pos + 16)?.try_into().ok()?);
            *pos += 16;
            out.push((x, y));
        }
        Some(out)
    }
    let mut pos = 0usize;
    if *bytes.first()? != 1 {
        return None;
    }
    let ty = u32::from_le_bytes(bytes.get(1..5)?.try_into().ok()?);
    match ty {
        2 => {
            let l = line(&bytes, &mut pos)?;
            if pos != bytes.len() {
                return None;
            }
            Some(vec![l])
        }
        5 => {
            pos = 5;
            let n = u32::from_le_bytes(bytes.get(pos..pos + 4)?.try_into().ok()?) as usize;
            pos += 4;
            let mut out = vec![];
            for _ in 0..n {
                out.push(line(&bytes, &mut pos)?);
            }
            if pos != bytes.len() {
                return None;
            }
            Some(out)
        }
        _ => None,
    }
}

fn geojson_lines(v: &Value) -> Option<Vec<(i64, Value, Vec<(f64, f64)>)>> {
    // (feature id, properties, coordinates)
    let feats = v.get("features")?.as_array()?;
    let mut out = vec![];
    for f in feats {
        let id = f.get("id")?.as_i64()?;
        let props = f.get("properties")?.clone();
        let coords = f
            .get("geometry")?
            .get("coordinates")?
            .as_array()?
            .iter()
            .map(|p| Some((p.get(0)?.as_f64()?, p.get(1)?.as_f64()?)))
            .collect::<Option<Vec<_>>>()?;
        out.push((id, props, coords));
    }
    Some(out)
}

fn same_coords(a: &[(f64, f64)], b: &[(f64, f64)]) -> bool {
    a.len() == b.len() && a.iter().zip(b).all(|(p, q)| p.0 == q.0 && p.1 == q.1)
}

impl Prop for C20 {
    type Case = C20Case;
    fn id(&self) -> &'static str {
        "C20"
    }
    fn rule(&self) -> String {
        "generated: searches (vertex orientation; Dijkstra, A*, single-via with several routes) on generated networks x geometry table with 2-6 points per edge whose coordinates encode edge id and point index x optionally truncated geometry table (missing rows) x identifier table; the traversal plugin is built from files for each of the 5 route formats and 5 tree formats and run on the same search result; WKT and WKB are decoded by own minimal readers. non-trivial = a route with >= 3 edges whose geometries have different point counts".to_string()
    }
    fn cases(&self, tier: Tier) -> u32 {
        tier.pick(40_000, 600_000)
    }
    fn assumptions(&self) -> Vec<String> {
        vec!["coordinates are compared exactly (f32 text round trip is exact for shortest-representation output)".into()]
    }
    fn strategy(&self, tier: Tier) -> BoxedStrategy<C20Case> {
        let max_n = tier.pick(10, 30);
        let algs = prop_oneof![
            3 => base_alg(),
            2 => (2usize..5, Just(AlgSpec::Dijkstra)).prop_map(|(k, u)| AlgSpec::SingleVia { k, underlying: Box::new(u), sim: None, term: None }),
        ]
        .boxed();
        crate::props::c03::c03_strategy(max_n, algs)
            .prop_flat_map(|search| {
                let m = search.spec.net.m().max(1);
                (
                    Just(search),
                    proptest::collection::vec(2u8..=6, m),
                    proptest::option::weighted(0.25, 0usize..=m),
                    any::<bool>(),
                    any::<bool>(),
                )
            })
            .prop_map(|(mut search, points, geometry_rows, with_tree, shared_junctions)| {
                search.edge_oriented = false;
                search.reverse = false;
                let n = search.spec.net.n();
                if search.o >= n {
                    search.o = 0;
                }
                if let Some(d) = search.d {
                    if d >= n || d == search.o {
                        search.d = Some((search.o + 1) % n);
                    }
                }
                search.query_k = None;
                C20Case {
                    search,
                    points,
                    geometry_rows,
                    with_tree,
                    shared_junctions,
                }
            })
            .boxed()
    }
    fn check(&self, case: &C20Case) -> Outcome {
        let mut o = Outcome::new();
        let sc = &case.search;
        let m = sc.spec.net.m();
        let built = match build_si(&sc.spec, BuildOpts::default()) {
            Ok(b) => b,
            Err(_) => return o,
        };
        let raw = match run_raw(sc, &built.si) {
            Ok(r) => r,
            Err(_) => {
                o.label("search-error");
                return o;
            }
        };
        let SearchAlgorithmResult { trees, routes, iterations } = raw;
        if routes.is_empty() || routes.iter().any(|r| r.is_empty()) {
            return o;
        }
        let dir = CaseDir::new();
        let gpath = dir.file("geometries.txt");
        let ends = |e: usize| -> Option<(usize, usize)> {
            if case.shared_junctions {
                sc.spec.net.edges.get(e).map(|(s, d, _)| (*s, *d))
            } else {
                None
            }
        };
        o.label_if(case.shared_junctions, "geometries-share-junction-points");
        let text = geometry_file_text(m, &case.points, case.geometry_rows, &ends);
        if write_text(&gpath, &text, false).is_err() {
            return o;
        }
        let rows = case.geometry_rows.unwrap_or(m).min(m);
        let upath = dir.file("uuids.txt");
        // in the shared-junction half of the cases every fourth vertex has no external
        // identifier: its row of the table is empty (and must stay that vertex's row)
        let uuid_for = |v: usize| -> String {
            if case.shared_junctions && v % 4 == 2 {
                String::new()
            } else {
                uuid_of(v)
            }
        };
        let utext: String = (0..sc.spec.net.n()).map(|v| format!("{}\n", uuid_for(v))).collect();
        let _ = write_text(&upath, &utext, false);

        let query = json!({"origin_vertex": sc.o, "destination_vertex": sc.d.unwrap(), "note": "c20"});
        let route_ids_all: Vec<Vec<usize>> = routes.iter().map(|r| route_ids(r)).collect();
        let tree_sizes: Vec<usize> = trees.iter().map(|t| t.len()).collect();
        let mut tree_edges: Vec<Vec<usize>> = trees
            .iter()
            .map(|t| {
                let mut v: Vec<usize> = t.values().map(|b| b.edge_traversal.edge_id.0).collect();
                v.sort();
                v
            })
            .collect();
        let route_missing = route_ids_all.iter().flatten().any(|e| *e >= rows);
        let tree_missing = tree_edges.iter().flatten().any(|e| *e >= rows);
        let expected_json: Vec<Value> = routes.iter().map(|r| serde_json::to_value(r).unwrap_or(Value::Null)).collect();
        let last_states: Vec<Vec<f64>> = routes
            .iter()
            .map(|r| r.last().map(|e| e.result_state.iter().map(|s| s.0).collect()).unwrap_or_default())
            .collect();
        let n_routes = routes.len();
        let total_route_edges: usize = routes.iter().map(|r| r.len()).sum();
        let si: SearchInstance = built.si;
        let result: Result<(SearchAppResult, SearchInstance), CompassAppError> = Ok((
            SearchAppResult {
                routes,
                trees,
                search_executed_time: "2024-01-01T00:00:00Z".to_string(),
                search_runtime: std::time::Duration::from_millis(3),
                iterations,
            },
            si,
        ));
        let expected_coords = |ids: &Vec<usize>| -> Vec<(f64, f64)> {
            ids.iter()
                .flat_map(|e| geometry(*e, case.points.get(*e).copied().unwrap_or(2), ends(*e)))
                .map(|(x, y)| (x as f64, y as f64))
                .collect()
        };
        let edge_coords = |e: usize| -> Vec<(f64, f64)> {
            geometry(e, case.points.get(e).copied().unwrap_or(2), ends(e))
                .into_iter()
                .map(|(x, y)| (x as f64, y as f64))
                .collect()
        };
        o.label_if(route_missing, "route-geometry-missing");
        o.label_if(n_routes > 1, "several-routes");
        if route_ids_all.iter().any(|ids| {
            ids.len() >= 3
                && ids
                    .iter()
                    .map(|e| case.points.get(*e).copied().unwrap_or(2))
                    .collect::<std::collections::HashSet<_>>()
                    .len()
                    >= 2
        }) {
            o.nontrivial = true;
        }
        for (fname, fmt) in FORMATS.iter() {
            let plugin = match TraversalPlugin::from_file(&gpath, Some(*fmt), if case.with_tree { Some(*fmt) } else { None }) {
                Ok(p) => p,
                Err(e) => {
                    o.fail("C20/traversal-plugin/build-error", json!({"error": e.to_string()}));
                    return o;
                }
            };
            o.label(format!("format-{}", fname));
            let mut output = json!({"request": query});
            let r = plugin.process(&mut output, &result);
            let geometric = matches!(*fname, "geo_json" | "wkt" | "wkb");
            let must_fail = geometric && (route_missing || (case.with_tree && tree_missing));
            let ctx = json!({"format": fname, "routes": route_ids_all, "geometry_rows": rows, "with_tree": case.with_tree});
            match (&r, must_fail) {
                (Err(_), true) => continue,
                (Ok(()), true) => {
                    o.fail(
                        format!("C20/{}/missing-geometry-did-not-yield-an-error", fname),
                        json!({"ctx": ctx, "output": output.get("route")}),
                    );
                    return o;
                }
                (Err(e), false) => {
                    o.fail(format!("C20/{}/unexpected-error", fname), json!({"ctx": ctx, "error": e.to_string()}));
                    return o;
                }
                (Ok(()), false) => {}
            }
            // route(s): one object, or an array of objects when there are several routes
            let route_out: Vec<Value> = match output.get("route") {
                Some(Value::Array(a)) if n_routes > 1 => a.clone(),
                Some(v) if n_routes == 1 => vec![v.clone()],
                other => {
                    o.fail(format!("C20/{}/route-output-shape", fname), json!({"ctx": ctx, "route": other}));
                    return o;
                }
            };
            if route_out.len() != n_routes {
                o.fail(format!("C20/{}/route-count", fname), json!({"ctx": ctx, "got": route_out.len()}));
                return o;
            }
            for (ri, ro) in route_out.iter().enumerate() {
                let ids = &route_ids_all[ri];
                let path = ro.get("path").cloned().unwrap_or(Value::Null);
                let fail = |o: &mut Outcome, what: &str| {
                    o.fail(
                        format!("C20/{}/route/{}", fname, what),
                        json!({"ctx": ctx, "route_index": ri, "path": path}),
                    );
                };
                match *fname {
                    "edge_id" => {
                        if path != json!(ids) {
                            fail(&mut o, "edge-ids-differ-from-route");
                            return o;
                        }
                    }
                    "json" => {
                        if path != expected_json[ri] {
                            fail(&mut o, "records-differ-from-route");
                            return o;
                        }
                    }
                    "geo_json" => match geojson_lines(&path) {
                        None => {
                            fail(&mut o, "unreadable");
                            return o;
                        }
                        Some(feats) => {
                            let ok = feats.len() == ids.len()
                                && feats.iter().enumerate().all(|(i, (id, props, coords))| {
                                    *id == ids[i] as i64
                                        && Some(props) == expected_json[ri].get(i)
                                        && same_coords(coords, &edge_coords(ids[i]))
                                });
                            if !ok {
                                fail(&mut o, "features-do-not-follow-the-edge-sequence");
                                return o;
                            }
                        }
                    },
                    "wkt" => match path.as_str().and_then(parse_wkt) {
                        Some(lines) if lines.len() == 1 && same_coords(&lines[0], &expected_coords(ids)) => {}
                        _ => {
                            fail(&mut o, "geometry-is-not-the-concatenation-in-edge-order");
                            return o;
                        }
                    },
                    _ => match path.as_str().and_then(parse_wkb_hex) {
                        Some(lines) if lines.len() == 1 && same_coords(&lines[0], &expected_coords(ids)) => {}
                        _ => {
                            fail(&mut o, "geometry-is-not-the-concatenation-in-edge-order");
                            return o;
                        }
                    },
                }
                // the summary equals the state after the last edge
                if let Some(ts) = ro.get("traversal_summary").and_then(|t| t.as_object()) {
                    let names: Vec<String> = result
                        .as_ref()
                        .map(|(_, si)| si.state_model.iter().map(|(k, _)| k.clone()).collect())
                        .unwrap_or_default();
                    let ok = ts.len() == names.len()
                        && names
                            .iter()
                            .enumerate()
                            .all(|(i, nm)| ts.get(nm).and_then(|v| v.as_f64()) == last_states[ri].get(i).copied());
                    if !ok {
                        o.fail(
                            "C20/traversal_summary-is-not-the-state-after-the-last-edge",
                            json!({"ctx": ctx, "summary": ts, "last_state": last_states[ri]}),
                        );
                        return o;
                    }
                } else {
                    fail(&mut o, "no-traversal-summary");
                    return o;
                }
            }
            // tree(s)
            if case.with_tree {
                let tree_out: Vec<Value> = match output.get("tree") {
                    Some(Value::Array(a)) if tree_sizes.len() > 1 && *fname != "edge_id" && *fname != "json" => a.clone(),
                    Some(Value::Array(a)) if tree_sizes.len() > 1 && a.len() == tree_sizes.len() && a.iter().all(|x| x.is_array()) => a.clone(),
                    Some(v) if tree_sizes.len() == 1 => vec![v.clone()],
                    Some(Value::Null) if tree_sizes.is_empty() => vec![],
                    other => {
                        o.fail(format!("C20/{}/tree-output-shape", fname), json!({"ctx": ctx, "tree": other}));
                        return o;
                    }
                };
                for (ti, to) in tree_out.iter().enumerate() {
                    let mut got_edges: Option<Vec<usize>> = None;
                    let count = match *fname {
                        "edge_id" => to.as_array().map(|a| {
                            got_edges = a.iter().map(|x| x.as_u64().map(|u| u as usize)).collect();
                            a.len()
                        }),
                        "json" => to.as_array().map(|a| {
                            got_edges = a
                                .iter()
                                .map(|x| x.get("edge_traversal").and_then(|e| e.get("edge_id")).and_then(|u| u.as_u64()).map(|u| u as usize))
                                .collect();
                            a.len()
                        }),
                        "geo_json" => geojson_lines(to).map(|f| {
                            got_edges = Some(f.iter().map(|(id, _, _)| *id as usize).collect());
                            // every feature carries its own edge's geometry
                            if !f.iter().all(|(id, _, c)| same_coords(c, &edge_coords(*id as usize))) {
                                got_edges = None;
                            }
                            f.len()
                        }),
                        "wkt" => to.as_str().and_then(parse_wkt).map(|l| l.len()),
                        _ => to.as_str().and_then(parse_wkb_hex).map(|l| l.len()),
                    };
                    let want = tree_sizes.get(ti).copied().unwrap_or(usize::MAX);
                    if count != Some(want) {
                        o.fail(
                            format!("C20/{}/tree/not-one-entry-per-branch", fname),
                            json!({"ctx": ctx, "tree_index": ti, "branches": want, "entries": count}),
                        );
                        return o;
                    }
                    if matches!(*fname, "edge_id" | "json" | "geo_json") {
                        let mut g = got_edges.unwrap_or_default();
                        g.sort();
                        if Some(&g) != tree_edges.get_mut(ti).map(|v| &*v) {
                            o.fail(
                                format!("C20/{}/tree/edges-differ-from-branches", fname),
                                json!({"ctx": ctx, "tree_index": ti}),
                            );
                            return o;
                        }
                    }
                }
            }
        }
        // identifiers and summary counts
        match UUIDOutputPlugin::from_file(&upath) {
            Ok(up) => {
                let mut output = json!({"request": query});
                match up.process(&mut output, &result) {
                    Ok(()) => {
                        let ok = output.get("origin_vertex_uuid").and_then(|v| v.as_str()) == Some(&uuid_for(sc.o))
                            && output.get("destination_vertex_uuid").and_then(|v| v.as_str()) == Some(&uuid_for(sc.d.unwrap()));
                        if !ok {
                            o.fail(
                                "C20/uuid/identifiers-are-not-those-of-the-matched-vertices",
                                json!({"origin": sc.o, "destination": sc.d, "output": output}),
                            );
                            return o;
                        }
                    }
                    Err(e) => {
                        o.fail("C20/uuid/error", json!({"error": e.to_string()}));
                        return o;
                    }
                }
            }
            Err(e) => o.fail("C20/uuid/build-error", json!({"error": e.to_string()})),
        }
        let mut output = json!({"request": query});
        let summary_plugin = SummaryOutputPlugin {};
        if summary_plugin.process(&mut output, &result).is_ok() {
            let ok = output.get("route_edges").and_then(|v| v.as_u64()) == Some(total_route_edges as u64)
                && output.get("tree_size_count").and_then(|v| v.as_u64()) == Some(tree_sizes.iter().sum::<usize>() as u64);
            if !ok {
                o.fail(
                    "C20/summary/counts",
                    json!({"route_edges": total_route_edges, "tree_sizes": tree_sizes, "output": output}),
                );
            }
        }
        o
    }
}
