//! C17 — grid search expands a query into exactly the Cartesian product of options
use crate::engine::{Outcome, Prop, Tier};
use proptest::prelude::*;
use routee_compass::app::compass::compass_app::apply_input_plugins;
use routee_compass::plugin::input::default::grid_search::plugin::GridSearchPlugin;
use routee_compass::plugin::input::input_plugin::InputPlugin;
use routee_compass_core::util::multiset::MultiSet;
use serde::{Deserialize, Serialize};
use serde_json::{json, Value};
use std::collections::HashSet;
use std::sync::Arc;

#[derive(Clone, Debug, Serialize, Deserialize)]
pub struct Axis {
    /// overrides base field `b<i>` when Some(i) and that field exists, else named `axis<idx>`
    pub overrides_base: Option<u8>,
    /// per choice: 0 = scalar number, 1 = scalar string, 2 = scalar bool/null, 3.. = object with (kind-2) keys
    pub choices: Vec<u8>,
}

#[derive(Clone, Debug, Serialize, Deserialize)]
pub enum C17Case {
    /// the mixed-radix iterator alone: option counts per axis
    MultiSet { shape: Vec<usize> },
    Grid {
        base_fields: u8,
        axes: Vec<Axis>,
        non_array_fields: u8,
        /// position of the grid key among the query's keys, and a rotation of the axes
        grid_pos: u8,
        rotate: u8,
        through_pipeline: bool,
    },
    NoGrid { base_fields: u8, through_pipeline: bool },
}

pub struct C17;

fn base_value(i: usize) -> Value {
    match i % 5 {
        0 => json!(i as i64 * 7),
        1 => json!(format!("base-{}", i)),
        2 => json!({"nested": i, "list": [1, 2, 3]}),
        3 => json!([i, "x", null]),
        _ => json!(i as f64 + 0.5),
    }
}

fn choice_value(axis: usize, idx: usize, kind: u8) -> Value {
    match kind {
        0 => json!((axis * 100 + idx) as i64),
        1 => json!(format!("axis{}-choice{}", axis, idx)),
        2 => {
            if idx == 0 {
                Value::Null
            } else {
                json!(format!("flag{}-{}", axis, idx))
            }
        }
        k => {
            let nkeys = (k as usize - 2).clamp(1, 2);
            let mut m = serde_json::Map::new();
            for j in 0..nkeys {
                m.insert(format!("axis{}_key{}", axis, j), json!(format!("v{}-{}-{}", axis, idx, j)));
            }
            // every other object-valued choice also brings a whole section of its own: an entry
            // whose value is an object, under a name the query already uses for an object
            if idx % 2 == 1 {
                m.insert(format!("section{}", axis), json!({"choice": idx, "depth": {"y": idx}}));
            }
            Value::Object(m)
        }
    }
}

struct Built {
    query: Value,
    expected: Vec<Value>,
    axis_lens: Vec<usize>,
    any_object: bool,
}

fn build(base_fields: u8, axes: &[Axis], non_array: u8, grid_pos: u8, rotate: u8) -> Built {
    let nb = base_fields as usize;
    let mut names: Vec<String> = vec![];
    let mut values: Vec<Vec<Value>> = vec![];
    let mut used_base = HashSet::new();
    for (ai, a) in axes.iter().enumerate() {
        let name = match a.overrides_base {
            Some(b) if (b as usize) < nb && used_base.insert(b) => format!("b{}", b),
            _ => format!("axis{}", ai),
        };
        names.push(name);
        values.push(
            a.choices
                .iter()
                .enumerate()
                .map(|(ci, k)| choice_value(ai, ci, *k))
                .collect(),
        );
    }
    // grid section: axes (rotated) interleaved with non-array fields
    let mut grid = serde_json::Map::new();
    let na = axes.len();
    let rot = if na > 0 { rotate as usize % na } else { 0 };
    for j in 0..non_array as usize {
        if j % 2 == 0 {
            grid.insert(format!("ignored{}", j), if j == 0 { json!("not-an-array") } else { json!({"k": 1}) });
        }
    }
    for t in 0..na {
        let i = (t + rot) % na;
        grid.insert(names[i].clone(), Value::Array(values[i].clone()));
    }
    for j in 0..non_array as usize {
        if j % 2 == 1 {
            grid.insert(format!("ignored{}", j), json!(12.5));
        }
    }
    let mut q = serde_json::Map::new();
    let pos = if nb > 0 { grid_pos as usize % (nb + 1) } else { 0 };
    for i in 0..nb {
        if i == pos {
            q.insert("grid_search".into(), Value::Object(grid.clone()));
        }
        q.insert(format!("b{}", i), base_value(i));
    }
    if pos >= nb {
        q.insert("grid_search".into(), Value::Object(grid.clone()));
    }
    // the query's own sections, one per axis that has object-valued choices: a chosen object's
    // entry of the same name replaces it as a whole (entries are overlaid at the top level)
    let section_axes: Vec<usize> = (0..axes.len()).filter(|ai| axes[*ai].choices.iter().any(|k| *k >= 3)).collect();
    for ai in &section_axes {
        q.insert(format!("section{}", ai), json!({"base": true, "depth": {"x": ai}}));
    }
    // reference product: nested loops over index tuples
    let mut expected = vec![];
    let lens: Vec<usize> = values.iter().map(|v| v.len()).collect();
    let total: usize = lens.iter().product();
    for mut t in 0..total {
        let mut inst = serde_json::Map::new();
        for i in 0..nb {
            inst.insert(format!("b{}", i), base_value(i));
        }
        for ai in &section_axes {
            inst.insert(format!("section{}", ai), json!({"base": true, "depth": {"x": ai}}));
        }
        for (ai, l) in lens.iter().enumerate() {
            let ci = t % l;
            t /= l;
            match &values[ai][ci] {
                Value::Object(obj) => {
                    for (k, v) in obj {
                        inst.insert(k.clone(), v.clone());
                    }
                }
                other => {
                    inst.insert(names[ai].clone(), other.clone());
                }
            }
        }
        expected.push(Value::Object(inst));
    }
    Built {
        query: Value::Object(q),
        expected,
        axis_lens: lens,
        any_object: axes.iter().any(|a| a.choices.iter().any(|k| *k >= 3)),
    }
}

/// grid search, then a second grid section injected into every generated query, then grid
/// search again: an expanding plugin that runs when the list already holds several queries
fn run_two_stage(query: &Value) -> Result<Vec<Value>, String> {
    use routee_compass::plugin::input::default::inject::inject_plugin::InjectInputPlugin;
    let plugins: Vec<Arc<dyn InputPlugin>> = vec![
        Arc::new(GridSearchPlugin {}),
        Arc::new(InjectInputPlugin::new("grid_search".to_string(), json!({"second_stage_axis": ["s0", "s1"]}), None)),
        Arc::new(GridSearchPlugin {}),
    ];
    apply_input_plugins(query, &plugins).map_err(|e| e.to_string())
}

/// harness input plugin that fans out only *some* queries: one with an odd number of top-level
/// fields becomes two copies (marked "fan_copy": 0 / 1), the others pass unchanged. After a grid
/// search the plugin state is then partially nested, in any position.
struct FanOutSome;
impl InputPlugin for FanOutSome {
    fn process(&self, input: &mut Value) -> Result<(), routee_compass::plugin::input::InputPluginError> {
        if let Some(obj) = input.as_object() {
            if obj.len() % 2 == 1 {
                let copies: Vec<Value> = (0..2)
                    .map(|i| {
                        let mut c = obj.clone();
                        c.insert("fan_copy".into(), json!(i));
                        Value::Object(c)
                    })
                    .collect();
                *input = Value::Array(copies);
            }
        }
        Ok(())
    }
}

fn run_partial_fan_out(query: &Value) -> Result<Vec<Value>, String> {
    let plugins: Vec<Arc<dyn InputPlugin>> = vec![Arc::new(GridSearchPlugin {}), Arc::new(FanOutSome)];
    apply_input_plugins(query, &plugins).map_err(|e| e.to_string())
}

fn run_plugin(query: &Value, through_pipeline: bool) -> Result<Vec<Value>, String> {
    if through_pipeline {
        let plugins: Vec<Arc<dyn InputPlugin>> = vec![Arc::new(GridSearchPlugin {})];
        apply_input_plugins(query, &plugins).map_err(|e| e.to_string())
    } else {
        let mut q = query.clone();
        GridSearchPlugin {}.process(&mut q).map_err(|e| e.to_string())?;
        match q {
            Value::Array(a) => Ok(a),
            other => Ok(vec![other]),
        }
    }
}

fn canon(v: &Value) -> String {
    // key-order-insensitive canonical text
    fn sort(v: &Value) -> Value {
        match v {
            Value::Object(m) => {
                let mut keys: Vec<&String> = m.keys().collect();
                keys.sort();
                let mut o = serde_json::Map::new();
                for k in keys {
                    o.insert(k.clone(), sort(&m[k]));
                }
                Value::Object(o)
            }
            Value::Array(a) => Value::Array(a.iter().map(sort).collect()),
            o => o.clone(),
        }
    }
    serde_json::to_string(&sort(v)).unwrap_or_default()
}

impl Prop for C17 {
    type Case = C17Case;
    fn id(&self) -> &'static str {
        "C17"
    }
    fn rule(&self) -> String {
        "enumerated: the mixed-radix iterator on all 340 shapes with 1-4 axes of 1-4 options (consumed through take(expected+1)); generated: iterator shapes up to 6 axes x 6 options; query objects with 0-5 extra fields of all JSON types, a grid section with 1-4 array fields of 1-4 distinct choices (numbers, strings, null, objects with 1-2 keys, mixtures), 0-2 non-array members, any key order and grid-key position, axis names that override a base field, one case in 300 with two axes of 18-45 choices (products of several hundred to several thousand), run through the plugin directly and through apply_input_plugins (a third of those through grid search -> inject a second grid section -> grid search, another third followed by a harness plugin that fans out only some of the queries); queries without a grid section. non-trivial = at least 2 axes with different lengths, one of length 1 and one object-valued choice".to_string()
    }
    fn cases(&self, tier: Tier) -> u32 {
        tier.pick(40_000, 1_500_000)
    }
    fn exhaustive_note(&self, _tier: Tier) -> Option<String> {
        Some("MultiSet on every shape with 1..4 axes of 1..4 options each (340 shapes)".into())
    }
    fn assumptions(&self) -> Vec<String> {
        vec![
            "choices within one axis are distinct and object-valued choices use keys that collide with nothing else (the statement does not define an overlay order for colliding keys)".into(),
            "output order is not asserted, only the multiset".into(),
            "degenerate sections (no array field, empty arrays) are outside this property's quantifier and belong to C12".into(),
        ]
    }
    fn enumerated(&self, _tier: Tier) -> Box<dyn Iterator<Item = C17Case> + '_> {
        let mut v = vec![];
        for axes in 1..=4usize {
            let total = 4usize.pow(axes as u32);
            for code in 0..total {
                let mut c = code;
                let mut shape = vec![];
                for _ in 0..axes {
                    shape.push(c % 4 + 1);
                    c /= 4;
                }
                v.push(C17Case::MultiSet { shape });
            }
        }
        Box::new(v.into_iter())
    }
    fn strategy(&self, _tier: Tier) -> BoxedStrategy<C17Case> {
        let ms = proptest::collection::vec(1usize..=6, 1..=6).prop_map(|shape| C17Case::MultiSet { shape });
        let axis = (
            proptest::option::weighted(0.25, 0u8..5),
            proptest::collection::vec(prop_oneof![3 => 0u8..3, 2 => 3u8..5], 1..=4),
        )
            .prop_map(|(overrides_base, choices)| Axis {
                overrides_base,
                choices,
            });
        let grid = (
            0u8..=5,
            proptest::collection::vec(axis, 1..=4),
            0u8..=2,
            any::<u8>(),
            any::<u8>(),
            any::<bool>(),
        )
            .prop_map(|(base_fields, axes, non_array_fields, grid_pos, rotate, through_pipeline)| C17Case::Grid {
                base_fields,
                axes,
                non_array_fields,
                grid_pos,
                rotate,
                through_pipeline,
            });
        // large products (hundreds to thousands of combinations): two long axes and a short one
        let long_axis = proptest::collection::vec(prop_oneof![3 => 0u8..3, 2 => 3u8..5], 18..=45).prop_map(|choices| Axis {
            overrides_base: None,
            choices,
        });
        let short_axis = proptest::collection::vec(0u8..3, 1..=3).prop_map(|choices| Axis {
            overrides_base: None,
            choices,
        });
        let big_grid = (0u8..=3, long_axis.clone(), long_axis, short_axis, any::<u8>(), any::<bool>()).prop_map(
            |(base_fields, a, b, c, rotate, through_pipeline)| C17Case::Grid {
                base_fields,
                axes: vec![a, b, c],
                non_array_fields: 0,
                grid_pos: 0,
                rotate,
                through_pipeline,
            },
        );
        let nogrid = (0u8..=5, any::<bool>()).prop_map(|(base_fields, through_pipeline)| C17Case::NoGrid {
            base_fields,
            through_pipeline,
        });
        prop_oneof![40 => ms, 240 => grid, 20 => nogrid, 1 => big_grid].boxed()
    }
    fn check(&self, case: &C17Case) -> Outcome {
        let mut o = Outcome::new();
        match case {
            C17Case::MultiSet { shape } => {
                o.label("multiset-iterator");
                let sets: Vec<Vec<usize>> = shape.iter().map(|n| (0..*n).collect()).collect();
                let expected: usize = shape.iter().product();
                let got: Vec<Vec<usize>> = MultiSet::from(&sets).take(expected + 1).collect();
                o.nontrivial = shape.len() >= 2 && shape.iter().collect::<HashSet<_>>().len() >= 2;
                if got.len() != expected {
                    o.fail(
                        "C17/multiset/count",
                        json!({"shape": shape, "expected": expected, "got_at_least": got.len()}),
                    );
                    return o;
                }
                let distinct: HashSet<&Vec<usize>> = got.iter().collect();
                if distinct.len() != expected {
                    o.fail("C17/multiset/duplicate-combination", json!({"shape": shape}));
                    return o;
                }
                if got
                    .iter()
                    .any(|c| c.len() != shape.len() || c.iter().zip(shape).any(|(x, n)| x >= n))
                {
                    o.fail("C17/multiset/invalid-combination", json!({"shape": shape}));
                }
            }
            C17Case::NoGrid { base_fields, through_pipeline } => {
                o.label("no-grid-section");
                let mut q = serde_json::Map::new();
                for i in 0..*base_fields as usize {
                    q.insert(format!("b{}", i), base_value(i));
                }
                let query = Value::Object(q);
                match run_plugin(&query, *through_pipeline) {
                    Err(e) => o.fail("C17/no-grid/error", json!({"error": e})),
                    Ok(out) => {
                        if out.len() != 1 || out[0] != query {
                            o.fail("C17/no-grid/changed", json!({"query": query, "got": out}));
                        }
                    }
                }
            }
            C17Case::Grid {
                base_fields,
                axes,
                non_array_fields,
                grid_pos,
                rotate,
                through_pipeline,
            } => {
                let b = build(*base_fields, axes, *non_array_fields, *grid_pos, *rotate);
                let lens: HashSet<usize> = b.axis_lens.iter().cloned().collect();
                o.nontrivial = b.axis_lens.len() >= 2
                    && lens.len() >= 2
                    && b.axis_lens.contains(&1)
                    && b.any_object;
                o.label(format!("axes-{}", b.axis_lens.len()));
                o.label_if(b.axis_lens.iter().product::<usize>() > 1024, "product->1024");
                o.label_if(b.any_object, "object-valued-choice");
                o.label_if(*through_pipeline, "through-apply_input_plugins");
                o.label_if(*non_array_fields > 0, "non-array-grid-members");
                // every third pipeline case expands twice
                let two_stage = *through_pipeline && *rotate % 3 == 0 && b.expected.len() <= 2000;
                o.label_if(two_stage, "two-stage-expansion");
                let mut b = b;
                if two_stage {
                    b.expected = b
                        .expected
                        .iter()
                        .flat_map(|e| {
                            ["s0", "s1"].iter().map(move |v| {
                                let mut e2 = e.clone();
                                if let Some(m) = e2.as_object_mut() {
                                    m.insert("second_stage_axis".into(), json!(v));
                                }
                                e2
                            })
                        })
                        .collect();
                }
                // another third is followed by a plugin that fans out only some of the queries
                let partial = *through_pipeline && *rotate % 3 == 1 && b.expected.len() <= 2000;
                o.label_if(partial, "partial-fan-out-after-expansion");
                if partial {
                    b.expected = b
                        .expected
                        .iter()
                        .flat_map(|e| match e.as_object() {
                            Some(m) if m.len() % 2 == 1 => (0..2)
                                .map(|i| {
                                    let mut c = m.clone();
                                    c.insert("fan_copy".into(), json!(i));
                                    Value::Object(c)
                                })
                                .collect::<Vec<_>>(),
                            _ => vec![e.clone()],
                        })
                        .collect();
                }
                let ran = if two_stage {
                    run_two_stage(&b.query)
                } else if partial {
                    run_partial_fan_out(&b.query)
                } else {
                    run_plugin(&b.query, *through_pipeline)
                };
                let out = match ran {
                    Err(e) => {
                        o.fail("C17/grid/error", json!({"query": b.query, "error": e}));
                        return o;
                    }
                    Ok(out) => out,
                };
                if out.len() != b.expected.len() {
                    o.fail(
                        "C17/grid/count",
                        json!({"query": b.query, "expected": b.expected.len(), "got": out.len()}),
                    );
                    return o;
                }
                if out.iter().any(|q| q.get("grid_search").is_some()) {
                    o.fail("C17/grid/grid-section-kept", json!({"query": b.query}));
                    return o;
                }
                let mut got: Vec<String> = out.iter().map(canon).collect();
                let mut want: Vec<String> = b.expected.iter().map(canon).collect();
                let distinct: HashSet<&String> = got.iter().collect();
                if distinct.len() != got.len() {
                    o.fail("C17/grid/duplicate-query", json!({"query": b.query}));
                    return o;
                }
                got.sort();
                want.sort();
                if got != want {
                    let missing: Vec<&String> = want.iter().filter(|w| !got.contains(w)).take(2).collect();
                    let extra: Vec<&String> = got.iter().filter(|g| !want.contains(g)).take(2).collect();
                    o.fail(
                        "C17/grid/not-the-cartesian-product",
                        json!({"query": b.query, "missing": missing, "unexpected": extra}),
                    );
                }
            }
        }
        o
    }
}
