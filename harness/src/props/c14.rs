//! C14 — interpolated powertrain predictions stay faithful to the underlying model
use crate::engine::{pick_idx, repo_root, Outcome, Prop, Tier};
use crate::refmodel::*;
use ndarray::{ArrayD, IxDyn};
use proptest::prelude::*;
use routee_compass_core::model::unit::as_f64::AsF64;
use routee_compass_core::model::unit::{EnergyRateUnit, Grade, GradeUnit, Speed, SpeedUnit};
use routee_compass_powertrain::routee::prediction::interpolation::interp::{
    Interp1D, Interp2D, Interp3D, InterpND, Interpolator, Strategy as IStrategy,
};
use routee_compass_powertrain::routee::prediction::interpolation::interpolation_speed_grade_model::InterpolationSpeedGradeModel;
use routee_compass_powertrain::routee::prediction::model_type::ModelType;
use routee_compass_powertrain::routee::prediction::smartcore::smartcore_speed_grade_model::SmartcoreSpeedGradeModel;
use routee_compass_powertrain::routee::prediction::PredictionModel;
use serde::{Deserialize, Serialize};
use serde_json::json;
use std::collections::HashMap;
use std::path::PathBuf;
use std::sync::{Arc, Mutex, OnceLock};

/// one coordinate of a query point, relative to an axis
#[derive(Clone, Debug, Serialize, Deserialize)]
pub enum Coord {
    Inside { cell: u16, frac: f64 },
    OnLine { idx: u16 },
    /// a grid line moved by `ulps` units in the last place
    NearLine { idx: u16, ulps: i8 },
    Lower,
    Upper,
    Below { by: f64 },
    Above { by: f64 },
}

impl Coord {
    fn value(&self, axis: &[f64]) -> f64 {
        let n = axis.len();
        let span = axis[n - 1] - axis[0];
        match self {
            Coord::Inside { cell, frac } => {
                let c = pick_idx(*cell, n - 1);
                axis[c] + frac * (axis[c + 1] - axis[c])
            }
            Coord::OnLine { idx } => axis[pick_idx(*idx, n)],
            Coord::NearLine { idx, ulps } => {
                let v = axis[pick_idx(*idx, n)];
                let mut bits = v.to_bits() as i64;
                // move in the direction of increasing magnitude * sign
                let step = *ulps as i64;
                if v > 0.0 {
                    bits += step;
                } else if v < 0.0 {
                    bits -= step;
                } else {
                    return (step as f64) * f64::MIN_POSITIVE;
                }
                f64::from_bits(bits as u64)
            }
            Coord::Lower => axis[0],
            Coord::Upper => axis[n - 1],
            Coord::Below { by } => axis[0] - by * span.max(1e-6) - 1e-9,
            Coord::Above { by } => axis[n - 1] + by * span.max(1e-6) + 1e-9,
        }
    }
    fn is_outside_kind(&self) -> bool {
        matches!(self, Coord::Below { .. } | Coord::Above { .. })
    }
}

#[derive(Clone, Debug, Serialize, Deserialize)]
pub enum C14Case {
    Generic {
        /// strictly increasing, non-uniform axes (1..4 of them)
        axes: Vec<Vec<f64>>,
        /// coefficient of the monomial prod_{i in S} x_i for every subset S (bit mask order)
        coeffs: Vec<f64>,
        points: Vec<Vec<Coord>>,
    },
    Model {
        model: u8,
        speed_lo: f64,
        speed_hi: f64,
        speed_bins: usize,
        grade_lo: f64,
        grade_hi: f64,
        grade_bins: usize,
        /// query units
        su: u8,
        gu: u8,
        points: Vec<(Coord, Coord)>,
        /// units the model is *declared* in: (speed unit, variant of the rate unit). The random
        /// forest maps numbers to numbers, so the tabulated numbers do not depend on the labels
        #[serde(default)]
        declared: (u8, u8),
    },
}

pub struct C14;

const MODELS: [(&str, usize); 4] = [
    ("Toyota_Camry.bin", 0),
    ("2017_CHEVROLET_Bolt.bin", 2),
    ("2016_CHEVROLET_Volt_Charge_Depleting.bin", 2),
    ("2016_CHEVROLET_Volt_Charge_Sustaining.bin", 0),
];

pub fn model_path(i: usize) -> PathBuf {
    repo_root()
        .join("rust/routee-compass-powertrain/src/routee/test")
        .join(MODELS[i % 4].0)
}

pub fn model_rate_unit(i: usize) -> EnergyRateUnit {
    ENERGY_RATE_UNITS[MODELS[i % 4].1]
}

type Underlying = Arc<SmartcoreSpeedGradeModel>;
static UNDERLYING: OnceLock<Mutex<HashMap<usize, Underlying>>> = OnceLock::new();

/// the underlying random forest in its native units (mph, decimal grade)
pub fn underlying(i: usize) -> Result<Underlying, String> {
    let cache = UNDERLYING.get_or_init(|| Mutex::new(HashMap::new()));
    if let Some(m) = cache.lock().unwrap().get(&(i % 4)) {
        return Ok(m.clone());
    }
    let m = SmartcoreSpeedGradeModel::new(
        &model_path(i),
        SpeedUnit::MilesPerHour,
        GradeUnit::Decimal,
        model_rate_unit(i),
    )
    .map_err(|e| e.to_string())?;
    let m = Arc::new(m);
    cache.lock().unwrap().insert(i % 4, m.clone());
    Ok(m)
}

/// same recurrence as the implementation's grid constructor (node positions are data here,
/// the node *values* come from the underlying model)
fn linspace(x0: f64, xend: f64, n: usize) -> Vec<f64> {
    let dx = (xend - x0) / ((n - 1) as f64);
    let mut x = vec![x0; n];
    for i in 1..n {
        x[i] = x[i - 1] + dx;
    }
    x
}

fn poly(coeffs: &[f64], p: &[f64]) -> (f64, f64) {
    let d = p.len();
    let mut v = 0.0;
    let mut scale = 0.0;
    for mask in 0..(1usize << d) {
        let mut t = coeffs[mask];
        for (i, x) in p.iter().enumerate() {
            if mask >> i & 1 == 1 {
                t *= x;
            }
        }
        v += t;
        scale += t.abs();
    }
    (v, scale)
}

fn cells_of(axis: &[f64], v: f64) -> Vec<usize> {
    // index of the cell(s) [axis[i], axis[i+1]] containing v; both neighbours when v is
    // within 4 ulp of an interior line
    let n = axis.len();
    let mut out = vec![];
    for i in 0..n - 1 {
        let tol_l = 4.0 * f64::EPSILON * axis[i].abs().max(f64::MIN_POSITIVE);
        let tol_u = 4.0 * f64::EPSILON * axis[i + 1].abs().max(f64::MIN_POSITIVE);
        if v >= axis[i] - tol_l && v <= axis[i + 1] + tol_u {
            out.push(i);
        }
    }
    if out.is_empty() {
        out.push(if v < axis[0] { 0 } else { n - 2 });
    }
    out
}

fn axis_strategy() -> impl Strategy<Value = Vec<f64>> {
    (
        -50.0f64..50.0,
        proptest::collection::vec(0.05f64..10.0, 1..=6),
    )
        .prop_map(|(x0, steps)| {
            let mut v = vec![(x0 * 8.0).round() / 8.0];
            for s in steps {
                let last = *v.last().unwrap();
                v.push(last + (s * 16.0).round().max(1.0) / 16.0);
            }
            v
        })
}

fn coord_strategy() -> impl Strategy<Value = Coord> {
    prop_oneof![
        8 => (any::<u16>(), 0.0f64..1.0).prop_map(|(cell, frac)| Coord::Inside { cell, frac }),
        3 => any::<u16>().prop_map(|idx| Coord::OnLine { idx }),
        2 => (any::<u16>(), prop_oneof![Just(-2i8), Just(-1i8), Just(1i8), Just(2i8)]).prop_map(|(idx, ulps)| Coord::NearLine { idx, ulps }),
        1 => Just(Coord::Lower),
        2 => Just(Coord::Upper),
        1 => (0.0f64..2.0).prop_map(|by| Coord::Below { by }),
        1 => (0.0f64..2.0).prop_map(|by| Coord::Above { by }),
    ]
}

impl Prop for C14 {
    type Case = C14Case;
    fn id(&self) -> &'static str {
        "C14"
    }
    fn rule(&self) -> String {
        "generated: (a) generic interpolators of dimension 1, 2, 3 and N (1..4) on strictly increasing non-uniform axes of 2-7 points holding a random multilinear polynomial, queried inside cells, on grid lines, +-1/2 ulp around lines, on both boundaries and outside; compared with the polynomial, with each other (1D/2D/3D vs ND, and a dummy-axis embedding) and for rejection outside the grid; (b) the speed/grade model over each of the four bundled random-forest files with generated bounds and 2-60 bins per axis, queried in all 3x3 speed/grade input units at the same kinds of points; compared with the underlying model at the four surrounding nodes (bounds), at nodes (equality), across lines (continuity) and outside (clamping, never an error). non-trivial = a query point that is not a grid node and lies in a cell whose corner values are not all equal".to_string()
    }
    fn cases(&self, tier: Tier) -> u32 {
        tier.pick(60_000, 1_500_000)
    }
    fn workers(&self, _tier: Tier) -> usize {
        16
    }
    fn assumptions(&self) -> Vec<String> {
        vec![
            "the bundled random-forest files are inputs, not code under test".into(),
            "a point within 4 ulp of a grid line is allowed to be interpolated in either adjacent cell".into(),
        ]
    }
    fn strategy(&self, _tier: Tier) -> BoxedStrategy<C14Case> {
        let generic = (1usize..=4)
            .prop_flat_map(|d| {
                (
                    proptest::collection::vec(axis_strategy(), d),
                    proptest::collection::vec((-5.0f64..5.0).prop_map(|v| (v * 32.0).round() / 32.0), 1 << d),
                    proptest::collection::vec(proptest::collection::vec(coord_strategy(), d), 1..12),
                )
            })
            .prop_map(|(axes, coeffs, points)| C14Case::Generic { axes, coeffs, points });
        let model = (
            0u8..4,
            (0.0f64..40.0, 45.0f64..120.0, 2usize..=60),
            (-0.3f64..-0.02, 0.02f64..0.3, 2usize..=60),
            0u8..3,
            0u8..3,
            proptest::collection::vec((coord_strategy(), coord_strategy()), 40..200),
            prop_oneof![1 => Just((1u8, 0u8)), 3 => (0u8..3, 0u8..9)],
        )
            .prop_map(|(model, (slo, shi, sb), (glo, ghi, gb), su, gu, points, declared)| C14Case::Model {
                model,
                speed_lo: (slo * 4.0).round() / 4.0,
                speed_hi: (shi * 4.0).round() / 4.0,
                speed_bins: sb,
                grade_lo: (glo * 200.0).round() / 200.0,
                grade_hi: (ghi * 200.0).round() / 200.0,
                grade_bins: gb,
                su,
                gu,
                points,
                declared,
            });
        prop_oneof![150 => generic, 1 => model].boxed()
    }
    fn check(&self, case: &C14Case) -> Outcome {
        let mut o = Outcome::new();
        match case {
            C14Case::Generic { axes, coeffs, points } => check_generic(axes, coeffs, points, &mut o),
            C14Case::Model {
                model,
                speed_lo,
                speed_hi,
                speed_bins,
                grade_lo,
                grade_hi,
                grade_bins,
                su,
                gu,
                points,
                declared,
            } => check_model(
                *model as usize,
                (*speed_lo, *speed_hi, *speed_bins),
                (*grade_lo, *grade_hi, *grade_bins),
                *su as usize,
                *gu as usize,
                points,
                *declared,
                &mut o,
            ),
        }
        o
    }
}

fn build_nd(axes: &[Vec<f64>], coeffs: &[f64]) -> (ArrayD<f64>, Vec<usize>) {
    let shape: Vec<usize> = axes.iter().map(|a| a.len()).collect();
    let arr = ArrayD::from_shape_fn(IxDyn(&shape), |idx| {
        let p: Vec<f64> = (0..axes.len()).map(|i| axes[i][idx[i]]).collect();
        poly(coeffs, &p).0
    });
    (arr, shape)
}

/// the fixed-dimension interpolator (1-D, 2-D, 3-D) over the same table, when there is one
fn fixed_interp(axes: &[Vec<f64>], values: &ArrayD<f64>) -> Option<Interpolator> {
    let d = axes.len();
    match d {
        1 => Interp1D::new(
            axes[0].clone(),
            (0..axes[0].len()).map(|i| values[[i]]).collect(),
        )
        .ok()
        .map(Interpolator::Interp1D),
        2 => Interp2D::new(
            axes[0].clone(),
            axes[1].clone(),
            (0..axes[0].len())
                .map(|i| (0..axes[1].len()).map(|j| values[[i, j]]).collect())
                .collect(),
        )
        .ok()
        .map(Interpolator::Interp2D),
        3 => Interp3D::new(
            axes[0].clone(),
            axes[1].clone(),
            axes[2].clone(),
            (0..axes[0].len())
                .map(|i| {
                    (0..axes[1].len())
                        .map(|j| (0..axes[2].len()).map(|k| values[[i, j, k]]).collect())
                        .collect()
                })
                .collect(),
        )
        .ok()
        .map(Interpolator::Interp3D),
        _ => None,
    }
}

fn check_generic(axes: &[Vec<f64>], coeffs: &[f64], points: &[Vec<Coord>], o: &mut Outcome) {
    let d = axes.len();
    o.label(format!("generic-{}d", d));
    o.label_if(
        axes.iter().any(|a| {
            a.len() > 2 && a.windows(2).map(|w| w[1] - w[0]).any(|s| (s - (a[1] - a[0])).abs() > 1e-12)
        }),
        "nonuniform",
    );
    let (values, _shape) = build_nd(axes, coeffs);
    let nd = match InterpND::new(axes.to_vec(), values.clone()) {
        Ok(i) => Interpolator::InterpND(i),
        Err(e) => {
            o.fail("C14/generic/nd-construction", json!({"error": e}));
            return;
        }
    };
    let fixed: Option<Interpolator> = fixed_interp(axes, &values);
    if d <= 3 && fixed.is_none() {
        o.fail("C14/generic/fixed-dimension-construction", json!({"dim": d}));
        return;
    }
    // dummy-axis embedding: (d+1)-D data constant along the new last axis
    let embedded: Option<Interpolator> = if d <= 3 {
        let mut axes2 = axes.to_vec();
        axes2.push(vec![0.0, 1.0]);
        let shape2: Vec<usize> = axes2.iter().map(|a| a.len()).collect();
        let arr2 = ArrayD::from_shape_fn(IxDyn(&shape2), |idx| {
            let p: Vec<f64> = (0..d).map(|i| axes[i][idx[i]]).collect();
            poly(coeffs, &p).0
        });
        InterpND::new(axes2, arr2).ok().map(Interpolator::InterpND)
    } else {
        None
    };
    for pt in points {
        let p: Vec<f64> = pt.iter().zip(axes).map(|(c, a)| c.value(a)).collect();
        let outside = p
            .iter()
            .zip(axes)
            .any(|(v, a)| *v < a[0] || *v > a[a.len() - 1]);
        let on_node = p.iter().zip(axes).all(|(v, a)| a.contains(v));
        for c in pt {
            match c {
                Coord::OnLine { .. } => o.label("on-line"),
                Coord::NearLine { .. } => o.label("ulp-near-line"),
                Coord::Upper => o.label("upper-boundary"),
                Coord::Lower => o.label("lower-boundary"),
                _ => {}
            }
        }
        o.label_if(outside, "outside");
        let (want, scale) = poly(coeffs, &p);
        let tol = 1e-9 * scale + 1e-12;
        let mut results: Vec<(&str, Result<f64, String>)> = vec![("nd", nd.interpolate(&p, &IStrategy::Linear))];
        if let Some(f) = &fixed {
            results.push(("fixed", f.interpolate(&p, &IStrategy::Linear)));
        }
        for (name, r) in &results {
            match r {
                Err(e) => {
                    if !outside {
                        o.fail(
                            format!("C14/generic/{}/in-grid-point-rejected", name),
                            json!({"dim": d, "point": p, "axes": axes, "error": e}),
                        );
                        return;
                    }
                }
                Ok(v) => {
                    if outside {
                        o.fail(
                            format!("C14/generic/{}/outside-point-accepted", name),
                            json!({"dim": d, "point": p, "axes": axes, "value": v}),
                        );
                        return;
                    }
                    if (v - want).abs() > tol {
                        o.fail(
                            format!("C14/generic/{}/does-not-reproduce-multilinear-function", name),
                            json!({"dim": d, "point": p, "axes": axes, "coeffs": coeffs, "got": v, "expected": want}),
                        );
                        return;
                    }
                }
            }
        }
        if !outside {
            if !on_node {
                // a cell whose corners are not all equal: any non-constant polynomial qualifies
                if coeffs.iter().skip(1).any(|c| *c != 0.0) {
                    o.nontrivial = true;
                }
            }
            if let (Some((_, Ok(a))), Some((_, Ok(b)))) = (results.first(), results.get(1)) {
                if (a - b).abs() > 1e-12 * scale + 1e-13 {
                    o.fail(
                        "C14/generic/fixed-and-nd-disagree",
                        json!({"dim": d, "point": p, "nd": a, "fixed": b}),
                    );
                    return;
                }
            }
            if let Some(emb) = &embedded {
                let mut p2 = p.clone();
                p2.push(0.5);
                match emb.interpolate(&p2, &IStrategy::Linear) {
                    Ok(v) => {
                        if (v - want).abs() > tol {
                            o.fail(
                                "C14/generic/dummy-axis-embedding-disagrees",
                                json!({"dim": d, "point": p, "got": v, "expected": want}),
                            );
                            return;
                        }
                    }
                    Err(e) => {
                        o.fail("C14/generic/dummy-axis-embedding-error", json!({"error": e}));
                        return;
                    }
                }
            }
        }
    }
    check_bumpy(axes, coeffs, points, o);
}

/// a table that is *not* multilinear (node value = polynomial + a pseudo-random bump per node):
/// extrapolating from a neighbouring cell no longer gives the right answer, so a wrong cell
/// index shows.  Reference: multilinear interpolation over the corners of the bracketing cell,
/// computed here; the result must also lie within the range of those corners.
fn check_bumpy(axes: &[Vec<f64>], coeffs: &[f64], points: &[Vec<Coord>], o: &mut Outcome) {
    let d = axes.len();
    let shape: Vec<usize> = axes.iter().map(|a| a.len()).collect();
    let amp = 1.0 + coeffs.iter().map(|c| c.abs()).fold(0.0, f64::max);
    let bump = |idx: &[usize]| -> f64 {
        let mut h: u64 = 0x9E37_79B9_7F4A_7C15 ^ (coeffs[0].to_bits());
        for (k, i) in idx.iter().enumerate() {
            h = (h ^ ((*i as u64 + 1) << (8 * k as u64))).wrapping_mul(0xBF58_476D_1CE4_E5B9);
            h ^= h >> 29;
        }
        amp * (((h >> 11) as f64 / (1u64 << 53) as f64) * 2.0 - 1.0)
    };
    let values = ArrayD::from_shape_fn(IxDyn(&shape), |idx| {
        let ix: Vec<usize> = (0..d).map(|i| idx[i]).collect();
        let p: Vec<f64> = (0..d).map(|i| axes[i][ix[i]]).collect();
        poly(coeffs, &p).0 + bump(&ix)
    });
    let nd = match InterpND::new(axes.to_vec(), values.clone()) {
        Ok(i) => Interpolator::InterpND(i),
        Err(_) => return, // construction already judged on the multilinear table
    };
    let fixed = fixed_interp(axes, &values);
    for pt in points {
        let p: Vec<f64> = pt.iter().zip(axes).map(|(c, a)| c.value(a)).collect();
        if p.iter().zip(axes).any(|(v, a)| *v < a[0] || *v > a[a.len() - 1]) {
            continue;
        }
        // bracketing cell per axis (on a grid line either neighbour gives the same value)
        let cell: Vec<usize> = p.iter().zip(axes).map(|(v, a)| cells_of(a, *v)[0]).collect();
        let mut want = 0.0;
        let (mut lo, mut hi) = (f64::INFINITY, f64::NEG_INFINITY);
        let mut mag = 0.0f64;
        for mask in 0..(1usize << d) {
            let mut w = 1.0;
            let mut ix = vec![0usize; d];
            for k in 0..d {
                let (a0, a1) = (axes[k][cell[k]], axes[k][cell[k] + 1]);
                let t = ((p[k] - a0) / (a1 - a0)).clamp(0.0, 1.0);
                if mask >> k & 1 == 1 {
                    w *= t;
                    ix[k] = cell[k] + 1;
                } else {
                    w *= 1.0 - t;
                    ix[k] = cell[k];
                }
            }
            let v = values[IxDyn(&ix)];
            want += w * v;
            lo = lo.min(v);
            hi = hi.max(v);
            mag = mag.max(v.abs());
        }
        let tol = 1e-9 * mag + 1e-12;
        let mut results: Vec<(&str, Result<f64, String>)> = vec![("nd", nd.interpolate(&p, &IStrategy::Linear))];
        if let Some(f) = &fixed {
            results.push(("fixed", f.interpolate(&p, &IStrategy::Linear)));
        }
        o.label("bumpy-table-point");
        for (name, r) in &results {
            if let Ok(v) = r {
                if *v < lo - tol || *v > hi + tol {
                    o.fail(
                        format!("C14/generic/{}/value-outside-the-range-of-the-surrounding-nodes", name),
                        json!({"dim": d, "point": p, "axes": axes, "cell": cell, "got": v, "corner_min": lo, "corner_max": hi}),
                    );
                    return;
                }
                if (v - want).abs() > tol {
                    o.fail(
                        format!("C14/generic/{}/differs-from-interpolation-over-the-bracketing-cell", name),
                        json!({"dim": d, "point": p, "axes": axes, "cell": cell, "got": v, "expected": want}),
                    );
                    return;
                }
            }
        }
    }
}

#[allow(clippy::too_many_arguments)]
fn check_model(
    model: usize,
    speed: (f64, f64, usize),
    grade: (f64, f64, usize),
    su: usize,
    gu: usize,
    points: &[(Coord, Coord)],
    declared: (u8, u8),
    o: &mut Outcome,
) {
    o.label(format!("model-{}", MODELS[model % 4].0));
    o.label(format!("query-units-{}-{}", su, gu));
    let und = match underlying(model) {
        Ok(u) => u,
        Err(e) => {
            o.fail("C14/harness/cannot-load-underlying", json!({"error": e}));
            return;
        }
    };
    // declared units of the interpolated model (default in old replay files: mph, native rate)
    let m_su = if declared == (0, 0) { SpeedUnit::MilesPerHour } else { SPEED_UNITS[declared.0 as usize % 3] };
    // declared grade unit: second component / 3 (0 decimal, 1 percent, 2 millis); the grid
    // bounds are written in that unit
    let m_gu = GRADE_UNITS[(declared.1 as usize / 3) % 3];
    let gscale = match m_gu {
        GradeUnit::Decimal => 1.0,
        GradeUnit::Percent => 100.0,
        GradeUnit::Millis => 1000.0,
    };
    let grade = (grade.0 * gscale, grade.1 * gscale, grade.2);
    o.label(format!("declared-grade-unit-{}", m_gu));
    let native = model_rate_unit(model);
    let m_ru = if native == EnergyRateUnit::KilowattHoursPerMile {
        [EnergyRateUnit::KilowattHoursPerMile, EnergyRateUnit::KilowattHoursPerKilometer, EnergyRateUnit::KilowattHoursPerMeter][declared.1 as usize % 3]
    } else {
        native
    };
    o.label(format!("declared-units-{}-{}", m_su, m_ru));
    let interp = match InterpolationSpeedGradeModel::new(
        &model_path(model),
        ModelType::Smartcore,
        "m".to_string(),
        m_su,
        (Speed::new(speed.0), Speed::new(speed.1)),
        speed.2,
        m_gu,
        (Grade::new(grade.0), Grade::new(grade.1)),
        grade.2,
        m_ru,
    ) {
        Ok(m) => m,
        Err(e) => {
            o.fail("C14/model/construction-error", json!({"error": e.to_string()}));
            return;
        }
    };
    let xs = linspace(speed.0, speed.1, speed.2);
    let ys = linspace(grade.0, grade.1, grade.2);
    // the same model as the configuration path obtains it (load_prediction_model with an
    // `interpolate` model type): it must be the same function
    let via_loader = routee_compass_powertrain::routee::prediction::load_prediction_model(
        "m".to_string(),
        &model_path(model),
        ModelType::Interpolate {
            underlying_model_type: Box::new(ModelType::Smartcore),
            speed_lower_bound: Speed::new(speed.0),
            speed_upper_bound: Speed::new(speed.1),
            speed_bins: speed.2,
            grade_lower_bound: Grade::new(grade.0),
            grade_upper_bound: Grade::new(grade.1),
            grade_bins: grade.2,
        },
        m_su,
        m_gu,
        m_ru,
        None,
        None,
        None,
    );
    match via_loader {
        Err(e) => {
            o.fail("C14/model/loader-rejects-valid-interpolate-section", json!({"error": e.to_string()}));
            return;
        }
        Ok(rec) => {
            for i in (0..xs.len()).step_by(1 + xs.len() / 7) {
                for j in (0..ys.len()).step_by(1 + ys.len() / 7) {
                    // node and a point between nodes
                    for (s, g) in [(xs[i], ys[j]), (xs[i] + (xs[xs.len() - 1] - xs[0]) * 0.013, ys[j] + (ys[ys.len() - 1] - ys[0]) * 0.017)] {
                        let a = interp.predict((Speed::new(s), m_su), (Grade::new(g), m_gu)).map(|r| r.0.as_f64()).map_err(|e| e.to_string());
                        let b = rec.prediction_model.predict((Speed::new(s), m_su), (Grade::new(g), m_gu)).map(|r| r.0.as_f64()).map_err(|e| e.to_string());
                        if a != b {
                            o.fail(
                                "C14/model/loader-builds-a-different-model",
                                json!({"speed": s, "grade": g, "declared_units": [m_su.to_string(), m_gu.to_string(), m_ru.to_string()], "direct": a, "through_load_prediction_model": b,
                                       "speed_grid": [speed.0, speed.1, speed.2], "grade_grid": [grade.0, grade.1, grade.2]}),
                            );
                            return;
                        }
                    }
                }
            }
        }
    }
    let node = |i: usize, j: usize| -> f64 {
        // the forest itself, in the units `und` was loaded with: numbers in, numbers out
        und.predict((Speed::new(xs[i]), SpeedUnit::MilesPerHour), (Grade::new(ys[j]), GradeUnit::Decimal))
            .map(|(r, _)| r.as_f64())
            .unwrap_or(f64::NAN)
    };
    let q_su = SPEED_UNITS[su % 3];
    let q_gu = GRADE_UNITS[gu % 3];
    let pred = |s: f64, s_u: SpeedUnit, g: f64, g_u: GradeUnit| -> Result<f64, String> {
        interp
            .predict((Speed::new(s), s_u), (Grade::new(g), g_u))
            .map(|(r, _)| r.as_f64())
            .map_err(|e| e.to_string())
    };
    for (cs, cg) in points {
        // the point in model units, then expressed in the query units
        let sm = cs.value(&xs);
        let gm = cg.value(&ys);
        let sq = m_su.convert(&Speed::new(sm), &q_su).as_f64();
        let gq = m_gu.convert(&Grade::new(gm), &q_gu).as_f64();
        // what the implementation sees after its own conversion back to model units
        let s_seen = q_su.convert(&Speed::new(sq), &m_su).as_f64();
        let g_seen = q_gu.convert(&Grade::new(gq), &m_gu).as_f64();
        let outside = s_seen < xs[0] || s_seen > xs[xs.len() - 1] || g_seen < ys[0] || g_seen > ys[ys.len() - 1];
        o.label_if(outside, "outside");
        o.label_if(cs.is_outside_kind() || cg.is_outside_kind(), "outside-requested");
        o.label_if(matches!(cs, Coord::OnLine { .. }) || matches!(cg, Coord::OnLine { .. }), "on-line");
        o.label_if(matches!(cs, Coord::Upper) || matches!(cg, Coord::Upper), "upper-boundary");
        let got = match pred(sq, q_su, gq, q_gu) {
            Ok(v) => v,
            Err(e) => {
                o.fail(
                    "C14/model/predict-error",
                    json!({"speed": sq, "grade": gq, "units": [su, gu], "outside": outside, "error": e,
                           "speed_grid": [speed.0, speed.1, speed.2], "grade_grid": [grade.0, grade.1, grade.2]}),
                );
                return;
            }
        };
        // clamping: same as the prediction at the nearest grid boundary
        let sc = s_seen.max(xs[0]).min(xs[xs.len() - 1]);
        let gc = g_seen.max(ys[0]).min(ys[ys.len() - 1]);
        match pred(sc, m_su, gc, m_gu) {
            Ok(v) => {
                if v != got {
                    o.fail(
                        "C14/model/outside-not-treated-as-boundary",
                        json!({"speed_seen": s_seen, "grade_seen": g_seen, "clamped": [sc, gc], "got": got, "at_clamped": v}),
                    );
                    return;
                }
            }
            Err(e) => {
                o.fail("C14/model/predict-error-at-clamped", json!({"error": e}));
                return;
            }
        }
        // bounds by the surrounding nodes
        let mut lo = f64::INFINITY;
        let mut hi = f64::NEG_INFINITY;
        let mut all_equal = true;
        let mut first: Option<f64> = None;
        for i in cells_of(&xs, sc) {
            for j in cells_of(&ys, gc) {
                for (a, b) in [(i, j), (i + 1, j), (i, j + 1), (i + 1, j + 1)] {
                    let v = node(a, b);
                    lo = lo.min(v);
                    hi = hi.max(v);
                    match first {
                        None => first = Some(v),
                        Some(f) => {
                            if f != v {
                                all_equal = false;
                            }
                        }
                    }
                }
            }
        }
        let eps = 1e-9 * lo.abs().max(hi.abs()) + 1e-15;
        if !(got >= lo - eps && got <= hi + eps) {
            o.fail(
                "C14/model/outside-corner-range",
                json!({"speed_seen": s_seen, "grade_seen": g_seen, "got": got, "corner_min": lo, "corner_max": hi,
                       "speed_grid": [speed.0, speed.1, speed.2], "grade_grid": [grade.0, grade.1, grade.2]}),
            );
            return;
        }
        let on_node = xs.contains(&sc) && ys.contains(&gc);
        if !on_node && !all_equal {
            o.nontrivial = true;
        }
    }
    // node equality on a sample of nodes (all when the grid is small)
    let stride_i = (xs.len() / 12).max(1);
    let stride_j = (ys.len() / 12).max(1);
    for i in (0..xs.len()).step_by(stride_i).chain([xs.len() - 1]) {
        for j in (0..ys.len()).step_by(stride_j).chain([ys.len() - 1]) {
            let want = node(i, j);
            match pred(xs[i], m_su, ys[j], m_gu) {
                Ok(v) => {
                    if (v - want).abs() > 1e-9 * want.abs() + 1e-15 {
                        o.fail(
                            "C14/model/node-value-differs-from-underlying",
                            json!({"node": [i, j], "speed": xs[i], "grade": ys[j], "got": v, "underlying": want,
                                   "speed_grid": [speed.0, speed.1, speed.2], "grade_grid": [grade.0, grade.1, grade.2]}),
                        );
                        return;
                    }
                }
                Err(e) => {
                    o.fail("C14/model/predict-error-at-node", json!({"node": [i, j], "error": e}));
                    return;
                }
            }
        }
    }
    // continuity across interior speed lines and grade lines
    for (axis_is_speed, lines, other) in [(true, &xs, &ys), (false, &ys, &xs)] {
        for li in 1..lines.len() - 1 {
            let w = (lines[li] - lines[li - 1]).min(lines[li + 1] - lines[li]);
            let delta = 1e-6 * w;
            // at the middle of some cell of the other axis
            let oj = (li * 7) % (other.len() - 1);
            let oc = 0.5 * (other[oj] + other[oj + 1]);
            let (a, b) = if axis_is_speed {
                (
                    pred(lines[li] - delta, m_su, oc, m_gu),
                    pred(lines[li] + delta, m_su, oc, m_gu),
                )
            } else {
                (
                    pred(oc, m_su, lines[li] - delta, m_gu),
                    pred(oc, m_su, lines[li] + delta, m_gu),
                )
            };
            if let (Ok(a), Ok(b)) = (a, b) {
                // corner spread of the two adjacent cells bounds the slope
                let mut lo = f64::INFINITY;
                let mut hi = f64::NEG_INFINITY;
                for di in [li - 1, li, li + 1] {
                    for dj in [oj, oj + 1] {
                        let v = if axis_is_speed { node(di, dj) } else { node(dj, di) };
                        lo = lo.min(v);
                        hi = hi.max(v);
                    }
                }
                let bound = 4.0 * (hi - lo) * (2.0 * delta / w) + 1e-9 * hi.abs().max(lo.abs()) + 1e-15;
                if (a - b).abs() > bound {
                    o.fail(
                        "C14/model/jump-across-cell-border",
                        json!({"axis": if axis_is_speed { "speed" } else { "grade" }, "line": lines[li], "other": oc,
                               "left": a, "right": b, "bound": bound,
                               "speed_grid": [speed.0, speed.1, speed.2], "grade_grid": [grade.0, grade.1, grade.2]}),
                    );
                    return;
                }
            }
        }
    }
}
