//! C15 — the loaded network is exactly the one described by the edge/vertex files
use crate::appbuild::write_text;
use crate::engine::{CaseDir, Outcome, Prop, Tier};
use crate::gen::*;
use proptest::prelude::*;
use routee_compass_core::algorithm::search::direction::Direction;
use routee_compass_core::model::access::default::turn_delays::edge_heading::EdgeHeading;
use routee_compass_core::model::network::graph::Graph;
use routee_compass_core::model::network::{EdgeId, VertexId};
use routee_compass_core::model::traversal::default::speed_traversal_engine::SpeedTraversalEngine;
use routee_compass_core::model::unit::as_f64::AsF64;
use routee_compass_core::model::unit::SpeedUnit;
use routee_compass_core::util::fs::{read_decoders, read_utils};
use serde::{Deserialize, Serialize};
use serde_json::json;
use std::collections::HashSet;

#[derive(Clone, Debug, Serialize, Deserialize)]
pub struct C15Case {
    pub net: NetCase,
    /// extra edge columns inserted at these positions (0..=4)
    pub edge_extra: Vec<u8>,
    /// order of the four edge columns
    pub edge_order: Vec<u8>,
    pub vertex_extra: Vec<u8>,
    /// order of the three vertex columns
    pub vertex_order: Vec<u8>,
    pub trailing_newline: (bool, bool),
    pub gzip: (bool, bool, bool),
    pub explicit_counts: bool,
    /// decimal digits of the coordinates in the file
    pub digits: u8,
    pub speeds: Vec<f64>,
    pub headings: Vec<(i16, i16)>,
    pub classes: Vec<u8>,
}

pub struct C15;

fn build_csv(header: Vec<String>, rows: Vec<Vec<String>>, trailing_newline: bool) -> String {
    let mut lines = vec![header.join(",")];
    for r in rows {
        lines.push(r.join(","));
    }
    let mut s = lines.join("\n");
    if trailing_newline {
        s.push('\n');
    }
    s
}

/// columns (name, values) arranged by `order`, with extra columns spliced in at `extra` positions
fn arrange(cols: Vec<(String, Vec<String>)>, order: &[u8], extra: &[u8], n_rows: usize) -> (Vec<String>, Vec<Vec<String>>) {
    let k = cols.len();
    // a permutation from `order` (stable: missing indices appended)
    let mut perm: Vec<usize> = vec![];
    for o in order {
        let i = *o as usize % k;
        if !perm.contains(&i) {
            perm.push(i);
        }
    }
    for i in 0..k {
        if !perm.contains(&i) {
            perm.push(i);
        }
    }
    let mut arranged: Vec<(String, Vec<String>)> = perm.iter().map(|i| cols[*i].clone()).collect();
    for (j, pos) in extra.iter().enumerate() {
        let at = (*pos as usize).min(arranged.len());
        let vals: Vec<String> = (0..n_rows)
            .map(|r| match j % 3 {
                0 => format!("extra{}", r * 7 + j),
                1 => format!("{}", (r as f64) * 1.5 + j as f64),
                _ => String::new(),
            })
            .collect();
        // extra columns may carry names that *look* like coordinates or lengths (with numeric
        // values): only the documented column names count
        let name = if n_rows % 2 == 0 {
            ["lon", "lat", "longitude", "latitude", "length", "dist"][(j + n_rows / 2) % 6].to_string()
        } else {
            format!("extra_col_{}", j)
        };
        arranged.insert(at, (name, vals));
    }
    let header: Vec<String> = arranged.iter().map(|(n, _)| n.clone()).collect();
    let rows: Vec<Vec<String>> = (0..n_rows)
        .map(|r| arranged.iter().map(|(_, v)| v[r].clone()).collect())
        .collect();
    (header, rows)
}

fn sorted(mut v: Vec<usize>) -> Vec<usize> {
    v.sort();
    v
}

impl Prop for C15 {
    type Case = C15Case;
    fn id(&self) -> &'static str {
        "C15"
    }
    fn rule(&self) -> String {
        "generated: networks (7 shapes incl. stars with degree up to 12+, parallel edges, self loops, isolated vertices) written as CSV with the edge columns in any order plus 0-3 extra columns, the vertex columns in any order plus 0-3 extra columns, with/without trailing newline, gzip (.gz) or plain independently per file, explicit or scanned counts, zero-length edges, extra columns named like coordinates, the same paths holding a shorter network first, coordinates with 0-7 decimal digits; per-edge speed, heading and road-class tables (plain or gzip). Oracle: the reference adjacency list built from the same rows; every Graph accessor, both adjacency views, vertex coordinates (text parsed as f32), gzip = plain, table row i = edge i. non-trivial = some vertex with in- or out-degree >= 5 and a file with extra/reordered columns or gzip".to_string()
    }
    fn cases(&self, tier: Tier) -> u32 {
        tier.pick(20_000, 400_000)
    }
    fn assumptions(&self) -> Vec<String> {
        vec![
            "ids equal the row index and edge end points are < n_vertices (preconditions stated in the Graph docs)".into(),
            "gzip files carry the .gz extension (the loaders count lines by extension and read by content)".into(),
            "adjacency order is not asserted, only duplicate-free set equality".into(),
        ]
    }
    /// a few large networks (thousands of rows, so that compressed files span many read buffers
    /// of any plausible size), gzip everywhere, counts scanned from the files
    fn enumerated(&self, tier: Tier) -> Box<dyn Iterator<Item = C15Case> + '_> {
        let sizes: Vec<usize> = tier.pick(vec![4_000, 9_000], vec![4_000, 9_000, 30_000, 70_000]);
        Box::new(sizes.into_iter().enumerate().map(|(k, n)| {
            // coordinates from a multiplicative sequence: they do not compress well
            let vertices: Vec<(f32, f32)> = (0..n)
                .map(|i| (-105.0 + ((i * 7919 + k) % 100_003) as f32 * 1e-5, 39.0 + ((i * 104_729 + 17 * k) % 100_019) as f32 * 1e-5))
                .collect();
            let mut edges: Vec<(usize, usize, f64)> = (0..n - 1).map(|i| (i, i + 1, 10.0 + (i % 977) as f64 * 0.25)).collect();
            edges.extend((0..n).filter(|i| i % 3 != 1).map(|i| (i, (i * 37 + 11) % n, 25.0 + (i % 613) as f64)));
            let m = edges.len();
            C15Case {
                net: NetCase { shape: "large".into(), vertices, edges, metric: false },
                edge_extra: vec![],
                edge_order: vec![0, 1, 2, 3],
                vertex_extra: if k % 2 == 1 { vec![1] } else { vec![] },
                vertex_order: vec![0, 1, 2],
                trailing_newline: (true, k % 2 == 0),
                gzip: (true, true, true),
                explicit_counts: false,
                digits: 7,
                speeds: (0..m).map(|i| 5.0 + (i % 1200) as f64 * 0.1).collect(),
                headings: (0..m).map(|i| ((i * 7 % 360) as i16, (i * 13 % 360) as i16)).collect(),
                classes: (0..m).map(|i| (i % 8) as u8).collect(),
            }
        }))
    }
    fn strategy(&self, tier: Tier) -> BoxedStrategy<C15Case> {
        let max_n = tier.pick(16, 60);
        net_any(max_n)
            .prop_flat_map(|net| {
                let m = net.m().max(1);
                (
                    Just(net),
                    (
                        proptest::collection::vec(0u8..5, 0..=3),
                        proptest::collection::vec(0u8..4, 4),
                        proptest::collection::vec(0u8..4, 0..=3),
                        proptest::collection::vec(0u8..3, 3),
                    ),
                    (any::<bool>(), any::<bool>()),
                    (any::<bool>(), any::<bool>(), any::<bool>()),
                    any::<bool>(),
                    0u8..=7,
                    proptest::collection::vec((1.0f64..130.0).prop_map(|v| (v * 10.0).round() / 10.0), m),
                    proptest::collection::vec((0i16..360, 0i16..360), m),
                    proptest::collection::vec(0u8..8, m),
                )
            })
            .prop_map(|(net, (edge_extra, edge_order, vertex_extra, vertex_order), trailing_newline, gzip, explicit_counts, digits, speeds, headings, classes)| C15Case {
                net,
                edge_extra,
                edge_order,
                vertex_extra,
                vertex_order,
                trailing_newline,
                gzip,
                explicit_counts,
                digits,
                speeds,
                headings,
                classes,
            })
            .boxed()
    }
    fn check(&self, c: &C15Case) -> Outcome {
        let mut o = Outcome::new();
        // in half of the cases every seventh edge (from id 3) has length 0: a valid row that
        // must stay in its place like any other
        let with_zero = c.digits % 2 == 0 && c.net.m() > 3;
        let zeroed;
        let c = if with_zero {
            let mut c2 = c.clone();
            for (i, e) in c2.net.edges.iter_mut().enumerate() {
                if i % 7 == 3 {
                    e.2 = 0.0;
                }
            }
            zeroed = c2;
            &zeroed
        } else {
            c
        };
        o.label_if(with_zero, "zero-length-edges");
        let n = c.net.n();
        let m = c.net.m();
        let g = c.net.ref_graph();
        let dir = CaseDir::new();
        // vertex coordinates as text with `digits` decimals
        let coord_text: Vec<(String, String)> = c
            .net
            .vertices
            .iter()
            .map(|(x, y)| {
                (
                    format!("{:.*}", c.digits as usize, x),
                    format!("{:.*}", c.digits as usize, y),
                )
            })
            .collect();
        let edge_cols = vec![
            ("edge_id".to_string(), (0..m).map(|i| i.to_string()).collect::<Vec<_>>()),
            ("src_vertex_id".to_string(), c.net.edges.iter().map(|e| e.0.to_string()).collect()),
            ("dst_vertex_id".to_string(), c.net.edges.iter().map(|e| e.1.to_string()).collect()),
            ("distance".to_string(), c.net.edges.iter().map(|e| format!("{}", e.2)).collect()),
        ];
        let vertex_cols = vec![
            ("vertex_id".to_string(), (0..n).map(|i| i.to_string()).collect::<Vec<_>>()),
            ("x".to_string(), coord_text.iter().map(|t| t.0.clone()).collect()),
            ("y".to_string(), coord_text.iter().map(|t| t.1.clone()).collect()),
        ];
        let (eh, er) = arrange(edge_cols, &c.edge_order, &c.edge_extra, m);
        let (vh, vr) = arrange(vertex_cols, &c.vertex_order, &c.vertex_extra, n);
        let edge_text = build_csv(eh.clone(), er, c.trailing_newline.0);
        let vertex_text = build_csv(vh.clone(), vr, c.trailing_newline.1);
        let name = |base: &str, gz: bool| if gz { format!("{}.csv.gz", base) } else { format!("{}.csv", base) };
        let load = |gz_e: bool, gz_v: bool, tag: &str| -> Result<Graph, String> {
            let ep = dir.file(&name(&format!("edges{}", tag), gz_e));
            let vp = dir.file(&name(&format!("vertices{}", tag), gz_v));
            // the same paths first hold a shorter network (header + first two rows) that is loaded
            // and discarded: nothing learnt about a path may survive a change of the file
            let head = |t: &str| t.lines().take(3).map(|l| format!("{}\n", l)).collect::<String>();
            if write_text(&ep, &head(&edge_text), gz_e).is_ok() && write_text(&vp, &head(&vertex_text), gz_v).is_ok() {
                let mut cfg0 = serde_json::Map::new();
                cfg0.insert("edge_list_input_file".into(), json!(ep.to_string_lossy().to_string()));
                cfg0.insert("vertex_list_input_file".into(), json!(vp.to_string_lossy().to_string()));
                cfg0.insert("verbose".into(), json!(false));
                let _ = crate::engine::guard(|| routee_compass::app::compass::config::graph_builder::DefaultGraphBuilder::build(&serde_json::Value::Object(cfg0)));
            }
            write_text(&ep, &edge_text, gz_e).map_err(|e| e.to_string())?;
            write_text(&vp, &vertex_text, gz_v).map_err(|e| e.to_string())?;
            // through the application's graph builder ([graph] section as JSON); counts are
            // explicit (true values) or scanned
            let mut cfg = serde_json::Map::new();
            cfg.insert("edge_list_input_file".into(), json!(ep.to_string_lossy().to_string()));
            cfg.insert("vertex_list_input_file".into(), json!(vp.to_string_lossy().to_string()));
            cfg.insert("verbose".into(), json!(false));
            if c.explicit_counts {
                cfg.insert("n_edges".into(), json!(m));
                cfg.insert("n_vertices".into(), json!(n));
            }
            routee_compass::app::compass::config::graph_builder::DefaultGraphBuilder::build(&serde_json::Value::Object(cfg)).map_err(|e| e.to_string())
        };
        let max_deg = (0..n).map(|v| g.out[v].len().max(g.inc[v].len())).max().unwrap_or(0);
        let odd_file = c.gzip.0 || c.gzip.1 || !c.edge_extra.is_empty() || !c.vertex_extra.is_empty()
            || eh.first().map(|h| h != "edge_id").unwrap_or(false)
            || vh.first().map(|h| h != "vertex_id").unwrap_or(false);
        o.nontrivial = max_deg >= 5 && odd_file;
        o.label(format!("max-degree-{}", if max_deg >= 5 { "5+".to_string() } else { max_deg.to_string() }));
        o.label_if(n >= 1000, "large-network");
        o.label_if(c.gzip.0, "gzip-edges");
        o.label_if(c.gzip.1, "gzip-vertices");
        o.label_if(c.explicit_counts, "explicit-counts");
        o.label_if(!c.trailing_newline.0 || !c.trailing_newline.1, "no-trailing-newline");
        o.label_if(!c.edge_extra.is_empty() || !c.vertex_extra.is_empty(), "extra-columns");
        let ctx = json!({"edge_header": eh, "vertex_header": vh, "gzip": c.gzip, "explicit_counts": c.explicit_counts, "trailing_newline": c.trailing_newline, "n": n, "m": m});
        let graph = match load(c.gzip.0, c.gzip.1, "") {
            Ok(g) => g,
            Err(e) => {
                o.fail("C15/load-error", json!({"ctx": ctx, "error": e}));
                return o;
            }
        };
        if graph.n_edges() != m || graph.n_vertices() != n {
            o.fail(
                "C15/counts",
                json!({"ctx": ctx, "n_edges": graph.n_edges(), "n_vertices": graph.n_vertices()}),
            );
            return o;
        }
        for (i, (s, d, l)) in c.net.edges.iter().enumerate() {
            let id = EdgeId(i);
            let ok = match graph.get_edge(&id) {
                Ok(e) => {
                    e.edge_id.0 == i
                        && e.src_vertex_id.0 == *s
                        && e.dst_vertex_id.0 == *d
                        && e.distance.as_f64() == format!("{}", l).parse::<f64>().unwrap_or(f64::NAN)
                }
                Err(_) => false,
            };
            let ok2 = graph.src_vertex_id(&id).map(|v| v.0).ok() == Some(*s)
                && graph.dst_vertex_id(&id).map(|v| v.0).ok() == Some(*d)
                && graph.incident_vertex(&id, &Direction::Forward).map(|v| v.0).ok() == Some(*d)
                && graph.incident_vertex(&id, &Direction::Reverse).map(|v| v.0).ok() == Some(*s)
                && graph
                    .edge_triplet(&id)
                    .map(|(a, e, b)| a.vertex_id.0 == *s && e.edge_id.0 == i && b.vertex_id.0 == *d)
                    .unwrap_or(false);
            if !ok || !ok2 {
                o.fail("C15/edge-record", json!({"ctx": ctx, "edge": i, "row": [s, d, l]}));
                return o;
            }
        }
        if graph.get_edge(&EdgeId(m)).is_ok() || graph.get_vertex(&VertexId(n)).is_ok() {
            o.fail("C15/id-beyond-the-file-is-retrievable", ctx);
            return o;
        }
        let mut all_out: Vec<usize> = vec![];
        let mut all_in: Vec<usize> = vec![];
        for v in 0..n {
            let vid = VertexId(v);
            let out: Vec<usize> = graph.out_edges(&vid).iter().map(|e| e.0).collect();
            let inc: Vec<usize> = graph.in_edges(&vid).iter().map(|e| e.0).collect();
            let dup_free = |x: &Vec<usize>| x.iter().collect::<HashSet<_>>().len() == x.len();
            let out_iter: Vec<usize> = graph.out_edges_iter(&vid).map(|e| e.0).collect();
            let in_iter: Vec<usize> = graph.in_edges_iter(&vid).map(|e| e.0).collect();
            let inc_f: Vec<usize> = graph.incident_edges(&vid, &Direction::Forward).iter().map(|e| e.0).collect();
            let inc_r: Vec<usize> = graph.incident_edges(&vid, &Direction::Reverse).iter().map(|e| e.0).collect();
            if !dup_free(&out)
                || sorted(out.clone()) != sorted(g.out[v].clone())
                || sorted(out_iter) != sorted(g.out[v].clone())
                || sorted(inc_f) != sorted(g.out[v].clone())
            {
                o.fail(
                    "C15/out-edges",
                    json!({"ctx": ctx, "vertex": v, "got": out, "rows_leaving_it": g.out[v]}),
                );
                return o;
            }
            if !dup_free(&inc)
                || sorted(inc.clone()) != sorted(g.inc[v].clone())
                || sorted(in_iter) != sorted(g.inc[v].clone())
                || sorted(inc_r) != sorted(g.inc[v].clone())
            {
                o.fail(
                    "C15/in-edges",
                    json!({"ctx": ctx, "vertex": v, "got": inc, "rows_entering_it": g.inc[v]}),
                );
                return o;
            }
            match graph.incident_triplet_ids(&vid, &Direction::Forward) {
                Ok(t) => {
                    if !t.iter().all(|(a, e, b)| a.0 == v && g.edges[e.0].src == v && g.edges[e.0].dst == b.0) || t.len() != g.out[v].len() {
                        o.fail("C15/incident-triplets", json!({"ctx": ctx, "vertex": v}));
                        return o;
                    }
                }
                Err(e) => {
                    o.fail("C15/incident-triplets", json!({"ctx": ctx, "vertex": v, "error": e.to_string()}));
                    return o;
                }
            }
            all_out.extend(out);
            all_in.extend(inc);
            // coordinates
            let want_x: f32 = coord_text[v].0.parse().unwrap_or(f32::NAN);
            let want_y: f32 = coord_text[v].1.parse().unwrap_or(f32::NAN);
            let ok = graph
                .get_vertex(&vid)
                .map(|vx| vx.vertex_id.0 == v && vx.x() == want_x && vx.y() == want_y)
                .unwrap_or(false);
            if !ok {
                o.fail(
                    "C15/vertex-record",
                    json!({"ctx": ctx, "vertex": v, "text": [coord_text[v].0, coord_text[v].1], "got": graph.get_vertex(&vid).map(|vx| (vx.x(), vx.y())).ok()}),
                );
                return o;
            }
        }
        // the two adjacency views describe the same edge set: all edges, each exactly once
        if sorted(all_out) != (0..m).collect::<Vec<_>>() || sorted(all_in) != (0..m).collect::<Vec<_>>() {
            o.fail("C15/adjacency-views-do-not-cover-the-edge-set", ctx);
            return o;
        }
        // gzip and plain loads of the same rows give equal graphs
        match load(!c.gzip.0, !c.gzip.1, "-alt") {
            Err(e) => {
                o.fail("C15/load-error-in-the-other-compression", json!({"ctx": ctx, "error": e}));
                return o;
            }
            Ok(g2) => {
                let same = g2.n_edges() == graph.n_edges()
                    && g2.n_vertices() == graph.n_vertices()
                    && (0..m).all(|i| {
                        let (a, b) = (&graph.edges[i], &g2.edges[i]);
                        a.src_vertex_id == b.src_vertex_id && a.dst_vertex_id == b.dst_vertex_id && a.distance == b.distance
                    })
                    && (0..n).all(|v| {
                        sorted(graph.out_edges(&VertexId(v)).iter().map(|e| e.0).collect()) == sorted(g2.out_edges(&VertexId(v)).iter().map(|e| e.0).collect())
                            && sorted(graph.in_edges(&VertexId(v)).iter().map(|e| e.0).collect()) == sorted(g2.in_edges(&VertexId(v)).iter().map(|e| e.0).collect())
                            && graph.vertices[v].coordinate == g2.vertices[v].coordinate
                    });
                if !same {
                    o.fail("C15/gzip-and-plain-loads-differ", ctx);
                    return o;
                }
            }
        }
        // the application's own graph accessors (the ones the language bindings expose) over the
        // same files: one case in six builds a whole application whose [graph] section names them
        if (n + m) % 6 == 0 {
            o.label("application-accessors");
            if let Some(f) = app_accessors(c, &dir, &g, &ctx) {
                o.fail(f.0, f.1);
                return o;
            }
        }
        // per-edge tables are aligned with edge ids by row
        if m > 0 {
            let gz = c.gzip.2;
            let sp = dir.file(if gz { "speeds.txt.gz" } else { "speeds.txt" });
            let stext: String = (0..m).map(|i| format!("{}\n", c.speeds[i])).collect();
            if write_text(&sp, &stext, gz).is_ok() {
                match SpeedTraversalEngine::new(&sp, SpeedUnit::KilometersPerHour, None, None) {
                    Ok(e) => {
                        let ok = e.speed_table.len() == m && (0..m).all(|i| e.speed_table[i].as_f64() == c.speeds[i]);
                        if !ok {
                            o.fail("C15/speed-table-not-aligned-with-edge-ids", json!({"ctx": ctx, "gzip": gz}));
                            return o;
                        }
                    }
                    Err(e) => {
                        o.fail("C15/speed-table-load-error", json!({"ctx": ctx, "error": e.to_string()}));
                        return o;
                    }
                }
            }
            let hp = dir.file(if gz { "headings.csv.gz" } else { "headings.csv" });
            let htext = format!(
                "arrival_heading,departure_heading\n{}",
                (0..m).map(|i| format!("{},{}\n", c.headings[i].0, c.headings[i].1)).collect::<String>()
            );
            if write_text(&hp, &htext, gz).is_ok() {
                match read_utils::from_csv::<EdgeHeading>(&hp.as_path(), true, None) {
                    Ok(h) => {
                        let ok = h.len() == m && (0..m).all(|i| h[i].start_heading() == c.headings[i].0 && h[i].end_heading() == c.headings[i].1);
                        if !ok {
                            o.fail("C15/heading-table-not-aligned-with-edge-ids", json!({"ctx": ctx, "gzip": gz}));
                            return o;
                        }
                    }
                    Err(e) => {
                        o.fail("C15/heading-table-load-error", json!({"ctx": ctx, "error": e.to_string()}));
                        return o;
                    }
                }
            }
            let cp = dir.file(if gz { "classes.txt.gz" } else { "classes.txt" });
            let ctext: String = (0..m).map(|i| format!("{}\n", c.classes[i])).collect();
            if write_text(&cp, &ctext, gz).is_ok() {
                match read_utils::read_raw_file(&cp, read_decoders::u8, None) {
                    Ok(t) => {
                        if t.to_vec() != c.classes[..m].to_vec() {
                            o.fail("C15/class-table-not-aligned-with-edge-ids", json!({"ctx": ctx, "gzip": gz}));
                            return o;
                        }
                    }
                    Err(e) => {
                        o.fail("C15/class-table-load-error", json!({"ctx": ctx, "error": e.to_string()}));
                        return o;
                    }
                }
            }
        }
        o
    }
}

/// the language-binding interface over an application that already exists
struct Bound<'a>(&'a routee_compass::app::compass::compass_app::CompassApp);
impl routee_compass::app::bindings::CompassAppBindings for Bound<'_> {
    fn from_config_toml_string(_config_string: String, _original_file_path: String) -> Result<Self, routee_compass::app::compass::compass_app_error::CompassAppError> {
        Err(routee_compass::app::compass::compass_app_error::CompassAppError::InternalError("not used".into()))
    }
    fn app(&self) -> &routee_compass::app::compass::compass_app::CompassApp {
        self.0
    }
}

/// a distance unit named by a text, ignoring case and surrounding blanks (None: no unit of that name)
fn unit_named(text: &str) -> Option<routee_compass_core::model::unit::DistanceUnit> {
    use routee_compass_core::model::unit::DistanceUnit as U;
    match text.trim().to_ascii_lowercase().as_str() {
        "meters" => Some(U::Meters),
        "kilometers" => Some(U::Kilometers),
        "miles" => Some(U::Miles),
        "feet" => Some(U::Feet),
        "inches" => Some(U::Inches),
        _ => None,
    }
}

/// An application over the files of the judged load, questioned through `CompassAppBindings`:
/// origin, destination and length of every edge (length in every unit, by name), both incident
/// edge lists of every vertex.  A unit text is either refused or answered in the unit it names -
/// never with a number in another unit.
fn app_accessors(c: &C15Case, dir: &CaseDir, g: &crate::refmodel::RefGraph, ctx: &serde_json::Value) -> Option<(String, serde_json::Value)> {
    use crate::refmodel::conv_dist;
    use routee_compass::app::bindings::CompassAppBindings;
    use routee_compass_core::model::unit::DistanceUnit;
    let (n, m) = (c.net.n(), c.net.m());
    let name = |base: &str, gz: bool| if gz { format!("{}.csv.gz", base) } else { format!("{}.csv", base) };
    let ep = dir.file(&name("edges", c.gzip.0));
    let vp = dir.file(&name("vertices", c.gzip.1));
    let dir2 = CaseDir::new();
    let spec = crate::appbuild::AppSpec::simple(c.net.clone());
    let files = match crate::appbuild::write_app(&spec, &dir2) {
        Ok(f) => f,
        Err(_) => return None,
    };
    let mut cfg = files.config.clone();
    cfg["graph"] = json!({"edge_list_input_file": ep.to_string_lossy().to_string(), "vertex_list_input_file": vp.to_string_lossy().to_string(), "verbose": false});
    let app = match crate::engine::guard(|| crate::appbuild::app_from_config(&cfg, dir2.path())) {
        Ok(Ok(a)) => a,
        Ok(Err(e)) => return Some(("C15/app/load-error".into(), json!({"ctx": ctx, "error": e}))),
        Err(p) => return Some(("C15/app/load-error".into(), json!({"ctx": ctx, "panic": [p.0, p.1]}))),
    };
    let b = Bound(&app);
    for (i, (s, d, l)) in c.net.edges.iter().enumerate() {
        let want_m: f64 = format!("{}", l).parse().unwrap_or(f64::NAN);
        if b.graph_edge_origin(i).ok() != Some(*s) || b.graph_edge_destination(i).ok() != Some(*d) {
            return Some(("C15/app/edge-end-points".into(), json!({"ctx": ctx, "edge": i, "row": [s, d], "got": [b.graph_edge_origin(i).ok(), b.graph_edge_destination(i).ok()]})));
        }
        if b.graph_edge_distance(i, None).ok() != Some(want_m) {
            return Some(("C15/app/edge-length".into(), json!({"ctx": ctx, "edge": i, "row_length_m": want_m, "got": b.graph_edge_distance(i, None).ok()})));
        }
        // every unit by its documented name, and spellings the parser may or may not accept
        let texts = ["meters", "kilometers", "miles", "feet", "inches", "Miles", "KILOMETERS", " feet", "Inches", "km", "mile", ""];
        // a few edges get the whole list, the others one text each
        let pick: Vec<&str> = if i < 3 { texts.to_vec() } else { vec![texts[(i * 5 + m) % texts.len()]] };
        for t in pick {
            match (b.graph_edge_distance(i, Some(t.to_string())), unit_named(t)) {
                (Ok(x), Some(u)) => {
                    let want = conv_dist(want_m, DistanceUnit::Meters, u);
                    if (x - want).abs() > 2e-3 * want.abs() {
                        return Some(("C15/app/edge-length-in-the-named-unit".into(), json!({"ctx": ctx, "edge": i, "unit_text": t, "row_length_m": want_m, "expected": want, "got": x})));
                    }
                }
                (Ok(x), None) => {
                    return Some(("C15/app/length-answered-for-a-text-that-names-no-unit".into(), json!({"ctx": ctx, "edge": i, "unit_text": t, "got": x})));
                }
                (Err(_), Some(_)) if ["meters", "kilometers", "miles", "feet", "inches"].contains(&t) => {
                    return Some(("C15/app/documented-unit-name-refused".into(), json!({"ctx": ctx, "edge": i, "unit_text": t})));
                }
                (Err(_), _) => {}
            }
        }
    }
    if b.graph_edge_origin(m).is_ok() || b.graph_edge_destination(m).is_ok() || b.graph_edge_distance(m, None).is_ok() {
        return Some(("C15/app/id-beyond-the-file-is-retrievable".into(), ctx.clone()));
    }
    for v in 0..n {
        let out = b.graph_get_out_edge_ids(v);
        let inc = b.graph_get_in_edge_ids(v);
        if sorted(out.clone()) != sorted(g.out[v].clone()) || sorted(inc.clone()) != sorted(g.inc[v].clone()) {
            return Some(("C15/app/incident-edges".into(), json!({"ctx": ctx, "vertex": v, "out": out, "in": inc, "rows_leaving_it": g.out[v], "rows_entering_it": g.inc[v]})));
        }
    }
    None
}
