//! Shared generators: road networks in several shapes, materialised in memory as a `Graph`.

use crate::engine::pick_idx;
use crate::refmodel::{gc_m, RefGraph};
use proptest::prelude::*;
use routee_compass_core::model::network::graph::Graph;
use routee_compass_core::model::network::{Edge, EdgeId, Vertex, VertexId};
use routee_compass_core::util::compact_ordered_hash_map::CompactOrderedHashMap;
use serde::{Deserialize, Serialize};

#[derive(Clone, Debug, Serialize, Deserialize, PartialEq)]
pub struct NetCase {
    pub shape: String,
    /// (lon, lat) in degrees, exactly representable as f32
    pub vertices: Vec<(f32, f32)>,
    /// (src, dst, length in metres)
    pub edges: Vec<(usize, usize, f64)>,
    pub metric: bool,
}

impl NetCase {
    pub fn n(&self) -> usize {
        self.vertices.len()
    }
    pub fn m(&self) -> usize {
        self.edges.len()
    }
    pub fn ref_graph(&self) -> RefGraph {
        let e: Vec<(usize, usize)> = self.edges.iter().map(|(s, d, _)| (*s, *d)).collect();
        RefGraph::new(self.n(), &e)
    }
    pub fn coord64(&self, v: usize) -> (f64, f64) {
        (self.vertices[v].0 as f64, self.vertices[v].1 as f64)
    }
    pub fn has_self_loop(&self) -> bool {
        self.edges.iter().any(|(s, d, _)| s == d)
    }
    pub fn has_parallel(&self) -> bool {
        let mut seen = std::collections::HashSet::new();
        self.edges.iter().any(|(s, d, _)| !seen.insert((*s, *d)))
    }
    pub fn max_out_degree(&self) -> usize {
        let mut deg = vec![0usize; self.n()];
        for (s, _, _) in &self.edges {
            deg[*s] += 1;
        }
        deg.into_iter().max().unwrap_or(0)
    }
    /// in-memory graph, built through the public insert API exactly as `EdgeLoader` does
    pub fn graph(&self) -> Graph {
        let vertices: Vec<Vertex> = self
            .vertices
            .iter()
            .enumerate()
            .map(|(i, (x, y))| Vertex::new(i, *x, *y))
            .collect();
        let edges: Vec<Edge> = self
            .edges
            .iter()
            .enumerate()
            .map(|(i, (s, d, l))| Edge::new(i, *s, *d, *l))
            .collect();
        let mut adj: Vec<CompactOrderedHashMap<EdgeId, VertexId>> =
            vec![CompactOrderedHashMap::empty(); vertices.len()];
        let mut rev: Vec<CompactOrderedHashMap<EdgeId, VertexId>> =
            vec![CompactOrderedHashMap::empty(); vertices.len()];
        for e in &edges {
            adj[e.src_vertex_id.0].insert(e.edge_id, e.dst_vertex_id);
            rev[e.dst_vertex_id.0].insert(e.edge_id, e.src_vertex_id);
        }
        Graph {
            adj: adj.into_boxed_slice(),
            rev: rev.into_boxed_slice(),
            edges: edges.into_boxed_slice(),
            vertices: vertices.into_boxed_slice(),
        }
    }
}

#[derive(Clone, Debug)]
pub struct RawNet {
    pub shape: u8,
    pub n: usize,
    pub spacing: u16,
    pub jitter: Vec<(u16, u16)>,
    pub extra: Vec<(u16, u16, u16)>,
    pub keep: Vec<bool>,
    pub lens: Vec<u16>,
}

pub const SHAPES: [&str; 7] = [
    "sparse-random",
    "lattice",
    "two-component",
    "chain",
    "star",
    "ladder",
    "dense-small",
];

/// lon/lat of the window origin: Denver-ish, far from the poles and the antimeridian
const LON0: f64 = -105.0;
const LAT0: f64 = 39.7;

pub fn materialise(raw: &RawNet, metric: bool) -> NetCase {
    let shape = raw.shape as usize % SHAPES.len();
    let mut n = raw.n.max(2);
    if shape == 4 {
        n = n.max(7);
    }
    if shape == 5 {
        n = (n.max(4) / 2) * 2;
    }
    if shape == 6 {
        n = n.min(5);
    }
    // spacing between 0.001 and 0.05 degrees
    let spacing = 0.001 + (raw.spacing as f64 / 65535.0) * 0.049;
    let w = (n as f64).sqrt().ceil() as usize;
    let jit = |i: usize| -> (f64, f64) {
        let (a, b) = raw.jitter.get(i).copied().unwrap_or((0, 0));
        (a as f64 / 65535.0, b as f64 / 65535.0)
    };
    let mut vertices: Vec<(f32, f32)> = Vec::with_capacity(n);
    for i in 0..n {
        let (jx, jy) = jit(i);
        let (cx, cy) = match shape {
            1 => ((i % w) as f64 + 0.3 * jx, (i / w) as f64 + 0.3 * jy),
            5 => {
                let k = n / 2;
                ((i % k) as f64 + 0.2 * jx, (i / k) as f64 + 0.2 * jy)
            }
            3 => (i as f64 + 0.3 * jx, 0.5 * jy),
            _ => (jx * w as f64, jy * w as f64),
        };
        vertices.push(((LON0 + cx * spacing) as f32, (LAT0 + cy * spacing) as f32));
    }
    // one network in seven has two distinct vertices on the same coordinate (stacked junctions,
    // duplicated nodes of an import): valid input, great-circle distance 0 between them
    if raw.spacing % 7 == 3 && n >= 3 {
        let j = 1 + (raw.spacing as usize / 7) % (n - 1);
        vertices[j] = vertices[0];
    }
    let mut pairs: Vec<(usize, usize)> = vec![];
    let mut k_idx = 0usize;
    let mut keep = |dflt: bool| -> bool {
        let r = raw.keep.get(k_idx).copied().unwrap_or(dflt);
        k_idx += 1;
        r
    };
    let max_extra = match shape {
        0 => 3 * n,
        1 => n / 3,
        2 => 3 * n,
        3 => n / 2,
        4 => n / 2,
        5 => n / 3,
        _ => 4 * n,
    };
    match shape {
        1 => {
            for i in 0..n {
                let (c, r) = (i % w, i / w);
                if c + 1 < w && i + 1 < n {
                    if keep(true) {
                        pairs.push((i, i + 1));
                    }
                    if keep(true) {
                        pairs.push((i + 1, i));
                    }
                }
                if (r + 1) * w + c < n {
                    let j = (r + 1) * w + c;
                    if keep(true) {
                        pairs.push((i, j));
                    }
                    if keep(true) {
                        pairs.push((j, i));
                    }
                }
            }
        }
        3 => {
            for i in 0..n - 1 {
                pairs.push((i, i + 1));
            }
        }
        4 => {
            for i in 1..n {
                if keep(true) {
                    pairs.push((0, i));
                }
                if keep(true) {
                    pairs.push((i, 0));
                }
            }
        }
        5 => {
            let k = n / 2;
            for i in 0..k {
                if i + 1 < k {
                    pairs.push((i, i + 1));
                    pairs.push((i + 1, i));
                    pairs.push((k + i, k + i + 1));
                    pairs.push((k + i + 1, k + i));
                }
                if keep(true) {
                    pairs.push((i, k + i));
                }
                if keep(true) {
                    pairs.push((k + i, i));
                }
            }
        }
        _ => {}
    }
    for (idx, (a, b, _)) in raw.extra.iter().enumerate() {
        if idx >= max_extra {
            break;
        }
        let (s, d) = if shape == 2 {
            // two components: [0, h) and [h, n)
            let h = n / 2;
            if idx % 2 == 0 {
                (pick_idx(*a, h.max(1)), pick_idx(*b, h.max(1)))
            } else {
                (h + pick_idx(*a, n - h), h + pick_idx(*b, n - h))
            }
        } else {
            (pick_idx(*a, n), pick_idx(*b, n))
        };
        pairs.push((s, d));
    }
    let mut edges = Vec::with_capacity(pairs.len());
    for (i, (s, d)) in pairs.iter().enumerate() {
        let lr = raw
            .lens
            .get(i)
            .copied()
            .or_else(|| raw.extra.get(i % raw.extra.len().max(1)).map(|e| e.2))
            .unwrap_or(1000);
        let len = if metric {
            let a = (vertices[*s].0 as f64, vertices[*s].1 as f64);
            let b = (vertices[*d].0 as f64, vertices[*d].1 as f64);
            let slack = 0.002 + (lr as f64 / 65535.0) * 0.498;
            gc_m(a, b) * (1.0 + slack) + 1.0
        } else {
            // free lengths 10 m .. 5 km, rounded to centimetres so the text form is short
            ((10.0 + (lr as f64 / 65535.0) * 4990.0) * 100.0).round() / 100.0
        };
        edges.push((*s, *d, len));
    }
    NetCase {
        shape: SHAPES[shape].to_string(),
        vertices,
        edges,
        metric,
    }
}

pub fn raw_net(max_n: usize) -> impl Strategy<Value = RawNet> {
    let max_n = max_n.max(4);
    (
        0u8..7,
        2usize..=max_n,
        any::<u16>(),
        proptest::collection::vec((any::<u16>(), any::<u16>()), max_n),
        proptest::collection::vec((any::<u16>(), any::<u16>(), any::<u16>()), 0..=3 * max_n),
        proptest::collection::vec(proptest::bool::weighted(0.85), 4 * max_n),
        proptest::collection::vec(any::<u16>(), 5 * max_n),
    )
        .prop_map(|(shape, n, spacing, jitter, extra, keep, lens)| RawNet {
            shape,
            n,
            spacing,
            jitter,
            extra,
            keep,
            lens,
        })
}

/// networks with free (coordinate-independent) lengths
pub fn net_free(max_n: usize) -> impl Strategy<Value = NetCase> {
    raw_net(max_n).prop_map(|r| materialise(&r, false))
}

/// metrically consistent networks: length >= great-circle distance * 1.002 + 1 m
pub fn net_metric(max_n: usize) -> impl Strategy<Value = NetCase> {
    raw_net(max_n).prop_map(|r| materialise(&r, true))
}

/// either kind, labelled by `NetCase.metric`
pub fn net_any(max_n: usize) -> impl Strategy<Value = NetCase> {
    (raw_net(max_n), any::<bool>()).prop_map(|(r, m)| materialise(&r, m))
}

/// large chains and lattices (n between max_n/2 and max_n): routes of hundreds of edges
pub fn net_long(max_n: usize) -> impl Strategy<Value = NetCase> {
    (raw_net(max_n), any::<bool>(), any::<bool>()).prop_map(move |(mut r, m, chain)| {
        r.shape = if chain { 3 } else { 1 };
        r.n = r.n.max(3 * max_n / 4);
        if chain {
            // an unbroken chain (the generic shapes drop 15 % of their edges)
            for k in r.keep.iter_mut() {
                *k = true;
            }
            // at most two chords: more would shorten every route to a few edges
            r.extra.truncate(2);
        }
        materialise(&r, m)
    })
}

/// an (origin, destination) pair of distinct vertices, as raw values to be mapped
pub fn od_pair(n: usize, a: u16, b: u16) -> (usize, usize) {
    let o = pick_idx(a, n);
    let mut d = pick_idx(b, n.saturating_sub(1).max(1));
    if d >= o {
        d += 1;
    }
    if d >= n {
        d = (o + 1) % n.max(1);
    }
    (o, d)
}
