//! Building a real `CompassApp` from plain case data: network and table files are written to a
//! per-case directory and the application is constructed through its configuration path
//! (config crate -> CompassAppBuilder -> model/plugin builders), so configuration parsing is
//! on the tested path of the application-level properties.

use crate::engine::CaseDir;
use crate::gen::NetCase;
use crate::simodel::*;
use routee_compass::app::compass::compass_app::CompassApp;
use routee_compass::app::compass::compass_app_ops::read_config_from_string;
use routee_compass::app::compass::config::compass_app_builder::CompassAppBuilder;
use serde::{Deserialize, Serialize};
use serde_json::{json, Value};
use std::io::Write;
use std::path::{Path, PathBuf};

pub fn write_text(path: &Path, text: &str, gzip: bool) -> std::io::Result<()> {
    if gzip {
        let f = std::fs::File::create(path)?;
        let mut enc = flate2::write::GzEncoder::new(f, flate2::Compression::fast());
        enc.write_all(text.as_bytes())?;
        enc.finish()?;
        Ok(())
    } else {
        std::fs::write(path, text)
    }
}

pub fn edges_csv(net: &NetCase) -> String {
    let mut s = String::from("edge_id,src_vertex_id,dst_vertex_id,distance\n");
    for (i, (a, b, l)) in net.edges.iter().enumerate() {
        s.push_str(&format!("{},{},{},{}\n", i, a, b, l));
    }
    s
}

pub fn vertices_csv(net: &NetCase) -> String {
    let mut s = String::from("vertex_id,x,y\n");
    for (i, (x, y)) in net.vertices.iter().enumerate() {
        s.push_str(&format!("{},{},{}\n", i, x, y));
    }
    s
}

/// straight two-point geometry per edge (src vertex -> dst vertex)
pub fn geometries_txt(net: &NetCase) -> String {
    let mut s = String::new();
    for (a, b, _) in &net.edges {
        let (x1, y1) = net.vertices[*a];
        let (x2, y2) = net.vertices[*b];
        s.push_str(&format!("LINESTRING ({} {}, {} {})\n", x1, y1, x2, y2));
    }
    s
}

#[derive(Clone, Debug, Serialize, Deserialize, PartialEq)]
pub enum InPlugin {
    GridSearch,
    VertexRtree { tolerance: Option<(f64, u8)> },
    EdgeRtree { tolerance: Option<(f64, u8)> },
    LoadBalancerHaversine,
    /// numeric custom weight read from this column
    LoadBalancerCustom { column: String },
    /// categorical custom weight: the column holds one of the names light / medium / heavy,
    /// anything else weighs the default, if there is one
    LoadBalancerCategorical { column: String, with_default: bool },
    Inject { key: String, value: Value, overwrite: Option<bool> },
}

#[derive(Clone, Debug, Serialize, Deserialize, PartialEq)]
pub enum OutPlugin {
    Summary,
    /// formats: "edge_id" | "json" | "geo_json" | "wkt" | "wkb"
    Traversal { route: Option<String>, tree: Option<String> },
    Uuid,
}

#[derive(Clone, Debug, Serialize, Deserialize, PartialEq)]
pub struct AppSpec {
    pub net: NetCase,
    pub trav: TravSpec,
    pub access: Option<TurnDelaySpec>,
    /// (distance unit idx, time unit idx) for the configured [state] section, if any
    pub state: Option<StateSpec>,
    pub w_dist: f64,
    pub w_time: f64,
    pub r_dist: RateSpec,
    pub r_time: RateSpec,
    pub alg: AlgSpec,
    pub edge_orientation: bool,
    pub parallelism: usize,
    pub input_plugins: Vec<InPlugin>,
    pub output_plugins: Vec<OutPlugin>,
    /// termination section as JSON (None = default runtime limit)
    pub termination: Option<Value>,
    pub discard_responses: bool,
    /// response_output_policy section as JSON (None = none)
    pub output_policy: Option<Value>,
    /// energy traversal model (ICE vehicle "veh" over the bundled Toyota Camry model) instead of `trav`
    #[serde(default)]
    pub energy: Option<EnergyAppSpec>,
}

#[derive(Clone, Debug, Serialize, Deserialize, PartialEq)]
pub struct EnergyAppSpec {
    /// per edge, km/h (time model: speed table) and decimal grade (grade table)
    pub speeds_kph: Vec<f64>,
    pub grades: Vec<f64>,
    pub adjustment: f64,
    /// prediction cache: (size, key precision of the speed, key precision of the grade)
    pub cache: Option<(usize, i32, i32)>,
    /// wrap the random forest in the interpolation model (continuous response)
    pub interpolate: bool,
    pub w_energy: f64,
    /// 0 Toyota Camry, 1 Chevrolet Volt charge sustaining (varies with speed over the whole range)
    #[serde(default)]
    pub model: u8,
    /// battery electric vehicle (Chevrolet Bolt model, 60 kWh) instead of the ICE vehicle: the
    /// query's starting_soc_percent becomes the initial value of the model's battery_state feature
    #[serde(default)]
    pub bev: bool,
}

pub const ENERGY_VEHICLE: &str = "veh";
pub const ENERGY_VEHICLE_2: &str = "veh2";

impl AppSpec {
    pub fn simple(net: NetCase) -> AppSpec {
        AppSpec {
            net,
            trav: TravSpec::Distance { unit: 0 },
            access: None,
            state: Some(StateSpec {
                dist_unit: 0,
                dist_init: 0.0,
                time_unit: 0,
                time_init: 0.0,
            }),
            w_dist: 1.0,
            w_time: 0.0,
            r_dist: RateSpec::Raw,
            r_time: RateSpec::Raw,
            alg: AlgSpec::AStar { wf: None },
            edge_orientation: false,
            parallelism: 2,
            input_plugins: vec![],
            output_plugins: vec![OutPlugin::Traversal {
                route: Some("edge_id".into()),
                tree: None,
            }],
            termination: None,
            discard_responses: false,
            output_policy: None,
            energy: None,
        }
    }
    pub fn has_time(&self) -> bool {
        matches!(self.trav, TravSpec::Speed { .. })
    }
}

pub const DIST_UNIT_NAMES: [&str; 5] = ["meters", "kilometers", "miles", "inches", "feet"];
pub const TIME_UNIT_NAMES: [&str; 4] = ["hours", "minutes", "seconds", "milliseconds"];
pub const SPEED_UNIT_NAMES: [&str; 3] = ["kilometers_per_hour", "miles_per_hour", "meters_per_second"];

pub fn alg_json(a: &AlgSpec) -> Value {
    let sim_json = |s: &SimSpec| match s {
        SimSpec::AcceptAll => json!({"type": "accept_all"}),
        SimSpec::EdgeCos(t) => json!({"type": "edge_id_cosine_similarity", "threshold": t}),
        SimSpec::DistCos(t) => json!({"type": "distance_weighted_cosine_similarity", "threshold": t}),
    };
    let term_json = |t: &KspTermSpec| match t {
        KspTermSpec::Exact => json!({"type": "exact"}),
        KspTermSpec::MaxIteration(m) => json!({"type": "max_iteration", "max": m}),
        KspTermSpec::Factor(f) => json!({"type": "factor", "factor": f}),
    };
    match a {
        AlgSpec::Dijkstra => json!({"type": "dijkstra"}),
        AlgSpec::AStar { wf } => match wf {
            Some(w) => json!({"type": "a*", "weight_factor": w}),
            None => json!({"type": "a*"}),
        },
        AlgSpec::SingleVia { k, underlying, sim, term } | AlgSpec::Yens { k, underlying, sim, term } => {
            let mut m = serde_json::Map::new();
            m.insert(
                "type".into(),
                json!(if matches!(a, AlgSpec::Yens { .. }) { "yens" } else { "ksp_single_via" }),
            );
            m.insert("k".into(), json!(k));
            m.insert("underlying".into(), alg_json(underlying));
            if let Some(s) = sim {
                m.insert("similarity".into(), sim_json(s));
            }
            if let Some(t) = term {
                m.insert("termination".into(), term_json(t));
            }
            Value::Object(m)
        }
    }
}

pub struct AppFiles {
    pub dir: PathBuf,
    pub edges: PathBuf,
    pub vertices: PathBuf,
    pub geometries: PathBuf,
    pub uuids: PathBuf,
    pub config: Value,
}

pub fn uuid_of(v: usize) -> String {
    format!("vertex-uuid-{:04}-x", v)
}

/// writes all files the specification needs and returns the configuration as JSON
pub fn write_app(spec: &AppSpec, dir: &CaseDir) -> std::io::Result<AppFiles> {
    let p = |name: &str| dir.file(name);
    let s = |pb: &PathBuf| pb.to_string_lossy().to_string();
    let edges = p("edges.csv");
    let vertices = p("vertices.csv");
    let geometries = p("geometries.txt");
    let uuids = p("uuids.txt");
    write_text(&edges, &edges_csv(&spec.net), false)?;
    write_text(&vertices, &vertices_csv(&spec.net), false)?;
    let m = spec.net.m();
    let mut cfg = serde_json::Map::new();
    cfg.insert("parallelism".into(), json!(spec.parallelism));
    cfg.insert(
        "search_orientation".into(),
        json!(if spec.edge_orientation { "edge" } else { "vertex" }),
    );
    cfg.insert(
        "response_persistence_policy".into(),
        json!(if spec.discard_responses {
            "discard_response_from_memory"
        } else {
            "persist_response_in_memory"
        }),
    );
    cfg.insert(
        "response_output_policy".into(),
        spec.output_policy.clone().unwrap_or(json!({"type": "none"})),
    );
    cfg.insert(
        "graph".into(),
        json!({"edge_list_input_file": s(&edges), "vertex_list_input_file": s(&vertices), "verbose": false}),
    );
    cfg.insert("algorithm".into(), alg_json(&spec.alg));
    // state
    if let Some(st) = &spec.state {
        let mut state = serde_json::Map::new();
        state.insert(
            DIST.into(),
            json!({"distance_unit": DIST_UNIT_NAMES[st.dist_unit as usize % 5], "initial": st.dist_init}),
        );
        if spec.has_time() {
            state.insert(
                TIME.into(),
                json!({"time_unit": TIME_UNIT_NAMES[st.time_unit as usize % 4], "initial": st.time_init}),
            );
        }
        cfg.insert("state".into(), Value::Object(state));
    }
    // traversal
    if let Some(en) = &spec.energy {
        let sp = p("speeds.txt");
        let gp = p("grades.txt");
        let (mut st, mut gt) = (String::new(), String::new());
        for i in 0..m.max(1) {
            st.push_str(&format!("{}\n", en.speeds_kph.get(i).copied().unwrap_or(40.0)));
            gt.push_str(&format!("{}\n", en.grades.get(i).copied().unwrap_or(0.0)));
        }
        write_text(&sp, &st, false)?;
        write_text(&gp, &gt, false)?;
        let model = crate::engine::repo_root()
            .join("rust/routee-compass-powertrain/src/routee/test")
            .join(if en.bev {
                "2017_CHEVROLET_Bolt.bin"
            } else if en.model == 1 {
                "2016_CHEVROLET_Volt_Charge_Sustaining.bin"
            } else {
                "Toyota_Camry.bin"
            });
        let model_type = if en.interpolate {
            json!({"interpolate": {"underlying_model_type": "smartcore",
                   "speed_lower_bound": 0, "speed_upper_bound": 100, "speed_bins": 41,
                   "grade_lower_bound": -0.2, "grade_upper_bound": 0.2, "grade_bins": 21}})
        } else {
            json!("smartcore")
        };
        let mut veh = serde_json::Map::new();
        veh.insert("name".into(), json!(ENERGY_VEHICLE));
        veh.insert("type".into(), json!(if en.bev { "bev" } else { "ice" }));
        if en.bev {
            veh.insert("battery_capacity".into(), json!(60.0));
            veh.insert("battery_capacity_unit".into(), json!("kilowatt_hours"));
        }
        veh.insert("model_input_file".into(), json!(s(&model)));
        veh.insert("model_type".into(), model_type);
        veh.insert("speed_unit".into(), json!("miles_per_hour"));
        veh.insert("grade_unit".into(), json!("decimal"));
        veh.insert("energy_rate_unit".into(), json!(if en.bev { "kilowatt_hours_per_mile" } else { "gallons_gasoline_per_mile" }));
        veh.insert("ideal_energy_rate".into(), json!(if en.bev { 0.2 } else { 0.02857143 }));
        veh.insert("real_world_energy_adjustment".into(), json!(en.adjustment));
        if let Some((size, ps, pg)) = en.cache {
            veh.insert("float_cache_policy".into(), json!({"cache_size": size, "key_precisions": [ps, pg]}));
        }
        // combustion configurations carry a second vehicle (ENERGY_VEHICLE_2): the other bundled
        // model, another adjustment, a prediction cache of its own with the same key precisions
        let mut vehicles = vec![Value::Object(veh.clone())];
        if !en.bev {
            let other = crate::engine::repo_root()
                .join("rust/routee-compass-powertrain/src/routee/test")
                .join(if en.model == 1 { "Toyota_Camry.bin" } else { "2016_CHEVROLET_Volt_Charge_Sustaining.bin" });
            let mut veh2 = veh.clone();
            veh2.insert("name".into(), json!(ENERGY_VEHICLE_2));
            veh2.insert("model_input_file".into(), json!(s(&other)));
            veh2.insert("real_world_energy_adjustment".into(), json!(en.adjustment * 0.5 + 0.6));
            vehicles.push(Value::Object(veh2));
        }
        cfg.insert(
            "traversal".into(),
            json!({"type": "energy_model",
                   "time_model_speed_unit": "kilometers_per_hour",
                   "grade_table_input_file": s(&gp),
                   "grade_table_grade_unit": "decimal",
                   "time_unit": "hours",
                   "distance_unit": "miles",
                   "time_model": {"type": "speed_table", "speed_table_input_file": s(&sp),
                                  "speed_unit": "kilometers_per_hour", "distance_unit": "miles", "time_unit": "hours"},
                   "vehicles": vehicles}),
        );
    } else {
    match &spec.trav {
        TravSpec::Distance { unit } => {
            cfg.insert(
                "traversal".into(),
                json!({"type": "distance", "distance_unit": DIST_UNIT_NAMES[*unit as usize % 5]}),
            );
        }
        TravSpec::Speed {
            speeds,
            speed_unit,
            dist_unit,
            time_unit,
        } => {
            let sp = p("speeds.txt");
            let mut text = String::new();
            for i in 0..m {
                text.push_str(&format!("{}\n", speeds.get(i).copied().unwrap_or(30.0)));
            }
            if m == 0 {
                text.push_str("30\n");
            }
            write_text(&sp, &text, false)?;
            cfg.insert(
                "traversal".into(),
                json!({"type": "speed_table", "speed_table_input_file": s(&sp),
                       "speed_unit": SPEED_UNIT_NAMES[*speed_unit as usize % 3],
                       "distance_unit": DIST_UNIT_NAMES[*dist_unit as usize % 5],
                       "time_unit": TIME_UNIT_NAMES[*time_unit as usize % 4]}),
            );
        }
    }
    }
    // access
    match &spec.access {
        Some(td) if spec.has_time() => {
            let hp = p("headings.csv");
            let mut text = String::from("arrival_heading,departure_heading\n");
            for i in 0..m {
                let (a, b) = td.headings.get(i).copied().unwrap_or((0, 0));
                if a == b {
                    // straight edge: the optional departure heading is left empty
                    text.push_str(&format!("{},\n", a));
                } else {
                    text.push_str(&format!("{},{}\n", a, b));
                }
            }
            write_text(&hp, &text, false)?;
            let mut table = serde_json::Map::new();
            for i in 0..8 {
                table.insert(TURN_NAMES[i].into(), json!(td.delays[i]));
            }
            cfg.insert(
                "access".into(),
                json!({"type": "turn_delay", "edge_heading_input_file": s(&hp),
                       "turn_delay_model": {"type": "tabular_discrete", "table": table, "time_unit": TIME_UNIT_NAMES[td.time_unit as usize % 4]}}),
            );
        }
        _ => {
            cfg.insert("access".into(), json!({"type": "no_access_model"}));
        }
    }
    // cost
    let mut weights = serde_json::Map::new();
    let mut rates = serde_json::Map::new();
    weights.insert(DIST.into(), json!(spec.w_dist));
    rates.insert(DIST.into(), spec.r_dist.to_json());
    if spec.has_time() || spec.energy.is_some() {
        weights.insert(TIME.into(), json!(spec.w_time));
        rates.insert(TIME.into(), spec.r_time.to_json());
    }
    if let Some(en) = &spec.energy {
        let feature = if en.bev { "energy_electric" } else { "energy_liquid" };
        weights.insert(feature.into(), json!(en.w_energy));
        rates.insert(feature.into(), json!({"type": "raw"}));
    }
    cfg.insert(
        "cost".into(),
        json!({"cost_aggregation": "sum", "network_rates": {}, "weights": weights, "vehicle_rates": rates}),
    );
    cfg.insert("frontier".into(), json!({"type": "no_restriction"}));
    cfg.insert(
        "termination".into(),
        spec.termination.clone().unwrap_or(json!({"type": "iterations", "limit": 10000000})),
    );
    // plugins
    let needs_geoms = spec
        .output_plugins
        .iter()
        .any(|o| matches!(o, OutPlugin::Traversal { .. }))
        || spec.input_plugins.iter().any(|i| matches!(i, InPlugin::EdgeRtree { .. }));
    if needs_geoms {
        let mut text = geometries_txt(&spec.net);
        if m == 0 {
            text.push_str("LINESTRING (0 0, 1 1)\n");
        }
        write_text(&geometries, &text, false)?;
    }
    let mut ins = vec![];
    for ip in &spec.input_plugins {
        ins.push(match ip {
            InPlugin::GridSearch => json!({"type": "grid_search"}),
            InPlugin::VertexRtree { tolerance } => {
                let mut o = serde_json::Map::new();
                o.insert("type".into(), json!("vertex_rtree"));
                o.insert("vertices_input_file".into(), json!(s(&vertices)));
                if let Some((t, u)) = tolerance {
                    o.insert("distance_tolerance".into(), json!(t));
                    o.insert("distance_unit".into(), json!(DIST_UNIT_NAMES[*u as usize % 5]));
                }
                Value::Object(o)
            }
            InPlugin::EdgeRtree { tolerance } => {
                let mut o = serde_json::Map::new();
                o.insert("type".into(), json!("edge_rtree"));
                o.insert("geometry_input_file".into(), json!(s(&geometries)));
                if let Some((t, u)) = tolerance {
                    o.insert("distance_tolerance".into(), json!(t));
                    o.insert("distance_unit".into(), json!(DIST_UNIT_NAMES[*u as usize % 5]));
                }
                Value::Object(o)
            }
            InPlugin::LoadBalancerHaversine => {
                json!({"type": "load_balancer", "weight_heuristic": {"type": "haversine"}})
            }
            InPlugin::LoadBalancerCustom { column } => {
                json!({"type": "load_balancer", "weight_heuristic": {"type": "custom", "custom_weight_type": {"type": "numeric", "column_name": column}}})
            }
            InPlugin::LoadBalancerCategorical { column, with_default } => {
                let mut cw = serde_json::Map::new();
                cw.insert("type".into(), json!("categorical"));
                cw.insert("column_name".into(), json!(column));
                cw.insert("mapping".into(), json!({"light": 1.0, "medium": 5.0, "heavy": 25.0}));
                if *with_default {
                    cw.insert("default".into(), json!(2.0));
                }
                json!({"type": "load_balancer", "weight_heuristic": {"type": "custom", "custom_weight_type": Value::Object(cw)}})
            }
            InPlugin::Inject { key, value, overwrite } => {
                let mut o = serde_json::Map::new();
                o.insert("type".into(), json!("inject"));
                o.insert("key".into(), json!(key));
                o.insert("value".into(), json!(value.to_string()));
                o.insert("format".into(), json!("json"));
                if let Some(w) = overwrite {
                    o.insert("overwrite".into(), json!(w));
                }
                Value::Object(o)
            }
        });
    }
    let mut outs = vec![];
    for op in &spec.output_plugins {
        outs.push(match op {
            OutPlugin::Summary => json!({"type": "summary"}),
            OutPlugin::Traversal { route, tree } => {
                let mut o = serde_json::Map::new();
                o.insert("type".into(), json!("traversal"));
                o.insert("geometry_input_file".into(), json!(s(&geometries)));
                if let Some(r) = route {
                    o.insert("route".into(), json!(r));
                }
                if let Some(t) = tree {
                    o.insert("tree".into(), json!(t));
                }
                Value::Object(o)
            }
            OutPlugin::Uuid => {
                let mut text = String::new();
                for v in 0..spec.net.n() {
                    text.push_str(&uuid_of(v));
                    text.push('\n');
                }
                let _ = write_text(&uuids, &text, false);
                json!({"type": "uuid", "uuid_input_file": s(&uuids)})
            }
        });
    }
    cfg.insert(
        "plugin".into(),
        json!({"input_plugins": ins, "output_plugins": outs}),
    );
    Ok(AppFiles {
        dir: dir.path().to_path_buf(),
        edges,
        vertices,
        geometries,
        uuids,
        config: Value::Object(cfg),
    })
}

pub fn app_from_config(config: &Value, dir: &Path) -> Result<CompassApp, String> {
    let text = serde_json::to_string(config).map_err(|e| e.to_string())?;
    // the configuration's own path is normalised like every *_input_file key: it must exist
    std::fs::write(dir.join("config.json"), &text).map_err(|e| e.to_string())?;
    let conf = read_config_from_string(
        text,
        config::FileFormat::Json,
        dir.join("config.json").to_string_lossy().to_string(),
    )
    .map_err(|e| e.to_string())?;
    let builder = CompassAppBuilder::default();
    CompassApp::try_from((&conf, &builder)).map_err(|e| e.to_string())
}

pub fn build_app(spec: &AppSpec, dir: &CaseDir) -> Result<(CompassApp, AppFiles), String> {
    let files = write_app(spec, dir).map_err(|e| e.to_string())?;
    let app = app_from_config(&files.config, dir.path())?;
    Ok((app, files))
}
