pub mod appbuild;
pub mod batch;
pub mod engine;
pub mod gen;
pub mod props;
pub mod refmodel;
pub mod searchrun;
pub mod simodel;
