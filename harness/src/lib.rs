pub mod engine;
pub mod props;
pub mod refmodel;
