//! Reference models written independently of the implementation: SI unit factors,
//! f64 haversine, a plain adjacency-list graph and label-correcting shortest paths.

use routee_compass_core::model::unit::{
    DistanceUnit, EnergyRateUnit, EnergyUnit, GradeUnit, SpeedUnit, TimeUnit, WeightUnit,
};
use serde::{Deserialize, Serialize};

// ---------------------------------------------------------------------------------------
// units (SI definitions)

pub const DISTANCE_UNITS: [DistanceUnit; 5] = [
    DistanceUnit::Meters,
    DistanceUnit::Kilometers,
    DistanceUnit::Miles,
    DistanceUnit::Inches,
    DistanceUnit::Feet,
];
pub const TIME_UNITS: [TimeUnit; 4] = [
    TimeUnit::Hours,
    TimeUnit::Minutes,
    TimeUnit::Seconds,
    TimeUnit::Milliseconds,
];
pub const SPEED_UNITS: [SpeedUnit; 3] = [
    SpeedUnit::KilometersPerHour,
    SpeedUnit::MilesPerHour,
    SpeedUnit::MetersPerSecond,
];
pub const ENERGY_UNITS: [EnergyUnit; 3] = [
    EnergyUnit::GallonsGasoline,
    EnergyUnit::GallonsDiesel,
    EnergyUnit::KilowattHours,
];
pub const GRADE_UNITS: [GradeUnit; 3] = [GradeUnit::Percent, GradeUnit::Decimal, GradeUnit::Millis];
pub const WEIGHT_UNITS: [WeightUnit; 3] = [WeightUnit::Pounds, WeightUnit::Tons, WeightUnit::Kg];
pub const ENERGY_RATE_UNITS: [EnergyRateUnit; 5] = [
    EnergyRateUnit::GallonsGasolinePerMile,
    EnergyRateUnit::GallonsDieselPerMile,
    EnergyRateUnit::KilowattHoursPerMile,
    EnergyRateUnit::KilowattHoursPerKilometer,
    EnergyRateUnit::KilowattHoursPerMeter,
];

/// metres per unit
pub fn dist_si(u: DistanceUnit) -> f64 {
    match u {
        DistanceUnit::Meters => 1.0,
        DistanceUnit::Kilometers => 1000.0,
        DistanceUnit::Miles => 1609.344,
        DistanceUnit::Inches => 0.0254,
        DistanceUnit::Feet => 0.3048,
    }
}
/// seconds per unit
pub fn time_si(u: TimeUnit) -> f64 {
    match u {
        TimeUnit::Hours => 3600.0,
        TimeUnit::Minutes => 60.0,
        TimeUnit::Seconds => 1.0,
        TimeUnit::Milliseconds => 0.001,
    }
}
/// metres per second per unit
pub fn speed_si(u: SpeedUnit) -> f64 {
    match u {
        SpeedUnit::KilometersPerHour => 1000.0 / 3600.0,
        SpeedUnit::MilesPerHour => 1609.344 / 3600.0,
        SpeedUnit::MetersPerSecond => 1.0,
    }
}
/// decimal grade per unit
pub fn grade_si(u: GradeUnit) -> f64 {
    match u {
        GradeUnit::Percent => 0.01,
        GradeUnit::Decimal => 1.0,
        GradeUnit::Millis => 0.001,
    }
}
/// kilograms per unit (ton = US short ton = 2000 lb)
pub fn weight_si(u: WeightUnit) -> f64 {
    match u {
        WeightUnit::Pounds => 0.45359237,
        WeightUnit::Tons => 907.18474,
        WeightUnit::Kg => 1.0,
    }
}
pub fn rate_distance_unit(u: EnergyRateUnit) -> DistanceUnit {
    match u {
        EnergyRateUnit::GallonsGasolinePerMile => DistanceUnit::Miles,
        EnergyRateUnit::GallonsDieselPerMile => DistanceUnit::Miles,
        EnergyRateUnit::KilowattHoursPerMile => DistanceUnit::Miles,
        EnergyRateUnit::KilowattHoursPerKilometer => DistanceUnit::Kilometers,
        EnergyRateUnit::KilowattHoursPerMeter => DistanceUnit::Meters,
    }
}
pub fn rate_energy_unit(u: EnergyRateUnit) -> EnergyUnit {
    match u {
        EnergyRateUnit::GallonsGasolinePerMile => EnergyUnit::GallonsGasoline,
        EnergyRateUnit::GallonsDieselPerMile => EnergyUnit::GallonsDiesel,
        _ => EnergyUnit::KilowattHours,
    }
}

pub fn conv_dist(x: f64, from: DistanceUnit, to: DistanceUnit) -> f64 {
    x * dist_si(from) / dist_si(to)
}
pub fn conv_time(x: f64, from: TimeUnit, to: TimeUnit) -> f64 {
    x * time_si(from) / time_si(to)
}
pub fn conv_speed(x: f64, from: SpeedUnit, to: SpeedUnit) -> f64 {
    x * speed_si(from) / speed_si(to)
}
pub fn conv_weight(x: f64, from: WeightUnit, to: WeightUnit) -> f64 {
    x * weight_si(from) / weight_si(to)
}
pub fn conv_grade(x: f64, from: GradeUnit, to: GradeUnit) -> f64 {
    x * grade_si(from) / grade_si(to)
}

// ---------------------------------------------------------------------------------------
// geometry

/// great-circle distance in metres, f64, R = 6 371 km, on (lon, lat) degrees
pub fn gc_m(a: (f64, f64), b: (f64, f64)) -> f64 {
    let (lon1, lat1) = (a.0.to_radians(), a.1.to_radians());
    let (lon2, lat2) = (b.0.to_radians(), b.1.to_radians());
    let dlat = lat2 - lat1;
    let dlon = lon2 - lon1;
    let h = (dlat / 2.0).sin().powi(2) + lat1.cos() * lat2.cos() * (dlon / 2.0).sin().powi(2);
    2.0 * 6_371_000.0 * h.sqrt().min(1.0).asin()
}

// ---------------------------------------------------------------------------------------
// graph

#[derive(Clone, Debug, Serialize, Deserialize, PartialEq)]
pub struct RefEdge {
    pub src: usize,
    pub dst: usize,
}

#[derive(Clone, Debug)]
pub struct RefGraph {
    pub n: usize,
    pub edges: Vec<RefEdge>,
    pub out: Vec<Vec<usize>>,
    pub inc: Vec<Vec<usize>>,
}

impl RefGraph {
    pub fn new(n: usize, edges: &[(usize, usize)]) -> RefGraph {
        let mut out = vec![vec![]; n];
        let mut inc = vec![vec![]; n];
        for (i, (s, d)) in edges.iter().enumerate() {
            out[*s].push(i);
            inc[*d].push(i);
        }
        RefGraph {
            n,
            edges: edges
                .iter()
                .map(|(s, d)| RefEdge { src: *s, dst: *d })
                .collect(),
            out,
            inc,
        }
    }
    pub fn m(&self) -> usize {
        self.edges.len()
    }
    /// the graph with every edge reversed (edge ids unchanged)
    pub fn reversed(&self) -> RefGraph {
        let e: Vec<(usize, usize)> = self.edges.iter().map(|e| (e.dst, e.src)).collect();
        RefGraph::new(self.n, &e)
    }
    /// set of vertices reachable from `s` over allowed edges (includes s)
    pub fn reach(&self, s: usize, allowed: &dyn Fn(usize) -> bool) -> Vec<bool> {
        let mut seen = vec![false; self.n];
        let mut stack = vec![s];
        seen[s] = true;
        while let Some(v) = stack.pop() {
            for &e in &self.out[v] {
                if !allowed(e) {
                    continue;
                }
                let w = self.edges[e].dst;
                if !seen[w] {
                    seen[w] = true;
                    stack.push(w);
                }
            }
        }
        seen
    }
}

/// label-correcting single-source shortest paths (Bellman-Ford with a work list);
/// edge costs must be non-negative for termination bounds, which every caller guarantees.
/// returns distance labels (INFINITY = unreachable)
pub fn ref_sssp(g: &RefGraph, cost: &[f64], allowed: &dyn Fn(usize) -> bool, s: usize) -> Vec<f64> {
    let mut dist = vec![f64::INFINITY; g.n];
    dist[s] = 0.0;
    // n-1 rounds of relaxation over all edges; n is small in every use
    for _ in 0..g.n.max(1) {
        let mut changed = false;
        for (i, e) in g.edges.iter().enumerate() {
            if !allowed(i) {
                continue;
            }
            if dist[e.src].is_finite() {
                let nd = dist[e.src] + cost[i];
                if nd < dist[e.dst] {
                    dist[e.dst] = nd;
                    changed = true;
                }
            }
        }
        if !changed {
            break;
        }
    }
    dist
}

/// number of distinct simple s->t paths, counted up to `cap`; the depth-first enumeration is
/// cut off after a fixed number of steps (the count found so far is returned, which keeps
/// non-triviality claims conservative)
pub fn count_simple_paths(g: &RefGraph, s: usize, t: usize, cap: usize) -> usize {
    fn rec(
        g: &RefGraph,
        v: usize,
        t: usize,
        seen: &mut Vec<bool>,
        count: &mut usize,
        cap: usize,
        budget: &mut usize,
    ) {
        if *count >= cap || *budget == 0 {
            return;
        }
        *budget -= 1;
        if v == t {
            *count += 1;
            return;
        }
        for &e in &g.out[v] {
            let w = g.edges[e].dst;
            if !seen[w] {
                seen[w] = true;
                rec(g, w, t, seen, count, cap, budget);
                seen[w] = false;
            }
        }
    }
    // only vertices that can reach t are worth visiting
    let can_reach_t = g.reversed().reach(t, &|_| true);
    if !can_reach_t[s] {
        return 0;
    }
    let mut seen: Vec<bool> = can_reach_t.iter().map(|r| !*r).collect();
    seen[s] = true;
    let mut c = 0;
    let mut budget = 20_000usize;
    rec(g, s, t, &mut seen, &mut c, cap, &mut budget);
    c
}
