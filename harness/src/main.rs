use rcv::engine::{self, Tier};
use rcv::props;
use std::io::Write;
use std::path::PathBuf;
use std::process::{Command, Stdio};
use std::time::{Duration, Instant};

fn usage() -> ! {
    eprintln!(
        "usage: rcv <ID> [--tier quick|thorough] [--seed N]\n       rcv <ID> --replay <file> [--strict]\n       rcv list"
    );
    std::process::exit(2);
}

fn seed_from_env() -> u64 {
    std::env::var("VERIF_SEED")
        .ok()
        .and_then(|s| s.trim().parse::<i128>().ok())
        .map(|v| v as u64)
        .unwrap_or(0)
}

fn redirect_stderr(id: &str) {
    let dir = engine::verif_root().join("work");
    let _ = std::fs::create_dir_all(&dir);
    let path = dir.join(format!("{}.stderr.log", id));
    if let Ok(f) = std::fs::OpenOptions::new()
        .create(true)
        .write(true)
        .truncate(true)
        .open(&path)
    {
        use std::os::unix::io::IntoRawFd;
        let fd = f.into_raw_fd();
        unsafe {
            libc::dup2(fd, 2);
        }
    }
}

fn limit_memory(gib: u64) {
    let lim = libc::rlimit {
        rlim_cur: gib << 30,
        rlim_max: gib << 30,
    };
    unsafe {
        libc::setrlimit(libc::RLIMIT_AS, &lim);
    }
}

fn worker_main(args: &[String]) -> i32 {
    // rcv --worker <ID> <tier> <seed>   |   rcv --worker-replay <ID> <file> [strict]
    engine::install_panic_hook();
    let mode = args[0].as_str();
    let id = args[1].clone();
    redirect_stderr(&id);
    limit_memory(24);
    // the code under test uses rayon's global pool
    let _ = rayon::ThreadPoolBuilder::new().num_threads(16).build_global();
    let code = match mode {
        "--worker" => {
            let tier = if args[2] == "thorough" {
                Tier::Thorough
            } else {
                Tier::Quick
            };
            let seed: u64 = args[3].parse().unwrap_or(0);
            props::run(&id, tier, seed)
        }
        "--worker-replay" => {
            let strict = args.get(3).map(|s| s == "strict").unwrap_or(false);
            props::replay(&id, &PathBuf::from(&args[2]), strict)
        }
        _ => None,
    };
    let _ = std::fs::remove_dir_all(engine::work_dir());
    match code {
        Some(c) => c,
        None => {
            println!("unknown property {}", id);
            2
        }
    }
}

/// runs a child and waits with a deadline. returns Some(exit code) or None (timeout / signal)
fn run_child(args: &[String], deadline: Duration) -> Option<i32> {
    let exe = std::env::current_exe().expect("current exe");
    let mut child = Command::new(exe)
        .args(args)
        .stdin(Stdio::null())
        .spawn()
        .expect("spawn worker");
    let t0 = Instant::now();
    loop {
        match child.try_wait() {
            Ok(Some(status)) => return status.code(),
            Ok(None) => {
                if t0.elapsed() > deadline {
                    let _ = child.kill();
                    let _ = child.wait();
                    return None;
                }
                std::thread::sleep(Duration::from_millis(50));
            }
            Err(_) => return None,
        }
    }
}

fn leftover_current_files(id: &str) -> Vec<PathBuf> {
    let dir = engine::verif_root().join("work");
    let prefix = format!("current-{}-", id);
    let mut v: Vec<PathBuf> = std::fs::read_dir(dir)
        .map(|rd| {
            rd.filter_map(|e| e.ok().map(|e| e.path()))
                .filter(|p| {
                    p.file_name()
                        .and_then(|n| n.to_str())
                        .map(|n| n.starts_with(&prefix))
                        .unwrap_or(false)
                })
                .collect()
        })
        .unwrap_or_default();
    v.sort();
    v
}

fn main() {
    let args: Vec<String> = std::env::args().skip(1).collect();
    if args.is_empty() {
        usage();
    }
    if args[0] == "--yens-server" {
        rcv::searchrun::yens_server_main();
    }
    if args[0] == "--worker" || args[0] == "--worker-replay" {
        let code = worker_main(&args);
        let _ = std::io::stdout().flush();
        std::process::exit(code);
    }
    if args[0] == "fuzz-seeds" {
        // rcv fuzz-seeds <dir> <seed>: deterministic starting corpus for the libFuzzer stage
        let dir = PathBuf::from(args.get(1).cloned().unwrap_or_else(|| usage()));
        let seed: u64 = args.get(2).and_then(|s| s.parse().ok()).unwrap_or(0);
        rcv::fuzzbridge::write_seed_corpus(&dir, seed);
        return;
    }
    if args[0] == "fuzz-merge" {
        // rcv fuzz-merge <ID> <status> <jobs> <runs per job>: folds the stage's statistics into evidence/<ID>.json
        let id = args.get(1).cloned().unwrap_or_else(|| usage());
        let status = args.get(2).cloned().unwrap_or_default();
        let jobs: u64 = args.get(3).and_then(|s| s.parse().ok()).unwrap_or(0);
        let runs: u64 = args.get(4).and_then(|s| s.parse().ok()).unwrap_or(0);
        rcv::fuzzbridge::merge_evidence(&id, &status, jobs, runs);
        return;
    }
    if args[0] == "list" {
        for id in props::ids() {
            println!("{}", id);
        }
        return;
    }
    let id = args[0].clone();
    if !props::ids().contains(&id.as_str()) {
        eprintln!("unknown property id {}", id);
        std::process::exit(2);
    }
    let mut tier = std::env::var("VERIF_TIER").unwrap_or_else(|_| "quick".to_string());
    let mut seed = seed_from_env();
    let mut replay: Option<String> = None;
    let mut strict = false;
    let mut i = 1;
    while i < args.len() {
        match args[i].as_str() {
            "--tier" => {
                tier = args.get(i + 1).cloned().unwrap_or_else(|| usage());
                i += 2;
            }
            "--seed" => {
                seed = args
                    .get(i + 1)
                    .and_then(|s| s.parse::<i128>().ok())
                    .map(|v| v as u64)
                    .unwrap_or_else(|| usage());
                i += 2;
            }
            "--replay" => {
                replay = Some(args.get(i + 1).cloned().unwrap_or_else(|| usage()));
                i += 2;
            }
            "--strict" => {
                strict = true;
                i += 1;
            }
            _ => usage(),
        }
    }
    let _ = std::fs::create_dir_all(engine::verif_root().join("work"));
    let unbounded_is_violation = props::unbounded_is_violation(&id);

    if let Some(file) = replay {
        let mut a = vec!["--worker-replay".to_string(), id.clone(), file.clone()];
        if strict {
            a.push("strict".to_string());
        }
        match run_child(&a, Duration::from_secs(600)) {
            Some(3) | None if unbounded_is_violation => {
                println!(
                    "VIOLATION property={} replay={} signature={}/unbounded",
                    id, file, id
                );
                std::process::exit(1);
            }
            Some(c) if c == 0 || c == 1 => std::process::exit(c),
            _ => {
                println!("INCONCLUSIVE property={} replay did not finish", id);
                std::process::exit(2);
            }
        }
    }

    let tier_s = if tier == "thorough" { "thorough" } else { "quick" };
    let deadline = if tier_s == "thorough" {
        Duration::from_secs(6 * 3600)
    } else {
        Duration::from_secs(1500)
    };
    for f in leftover_current_files(&id) {
        let _ = std::fs::remove_file(f);
    }
    let _ = std::fs::remove_file(engine::suspect_file(&id));
    let a = vec![
        "--worker".to_string(),
        id.clone(),
        tier_s.to_string(),
        seed.to_string(),
    ];
    let code = run_child(&a, deadline);
    match code {
        Some(c) if c == 0 || c == 1 => std::process::exit(c),
        other => {
            // suspected hang (3), crash (signal / abort -> None or 134) or deadline
            let mut suspects: Vec<PathBuf> = vec![];
            let sf = engine::suspect_file(&id);
            if sf.exists() {
                suspects.push(sf);
            }
            suspects.extend(leftover_current_files(&id));
            if suspects.is_empty() || !unbounded_is_violation {
                println!(
                    "INCONCLUSIVE property={} worker ended with {:?} (watchdog/crash/deadline); not a verdict",
                    id, other
                );
                std::process::exit(2);
            }
            // re-run each suspect once, alone, with twice the per-case budget
            for s in suspects {
                let a = vec![
                    "--worker-replay".to_string(),
                    id.clone(),
                    s.display().to_string(),
                ];
                let r = run_child(&a, Duration::from_secs(900));
                match r {
                    Some(0) => continue,
                    Some(1) => std::process::exit(1), // the replay printed its own VIOLATION
                    _ => {
                        let dir = engine::verif_root().join("replays").join("found");
                        let _ = std::fs::create_dir_all(&dir);
                        let dst = dir.join(format!(
                            "{}-unbounded-{}.json",
                            id,
                            std::time::SystemTime::now()
                                .duration_since(std::time::UNIX_EPOCH)
                                .map(|d| d.as_secs())
                                .unwrap_or(0)
                        ));
                        let _ = std::fs::copy(&s, &dst);
                        println!(
                            "VIOLATION property={} replay={} signature={}/unbounded-or-abort",
                            id,
                            dst.display(),
                            id
                        );
                        std::process::exit(1);
                    }
                }
            }
            println!(
                "INCONCLUSIVE property={} worker ended with {:?} but no suspect case reproduced",
                id, other
            );
            std::process::exit(2);
        }
    }
}
