//! Shared machinery for the application-level batch properties (C06, C12, C19):
//! a family of application configurations, a query grammar, a reference model of the
//! configured input pipeline (how many responses a query must produce), harness plugins that
//! perturb the schedule, and response canonicalisation.

use crate::appbuild::*;
use crate::engine::pick_idx;
use crate::gen::NetCase;
use crate::refmodel::gc_m;
use crate::simodel::*;
use routee_compass::app::compass::compass_app::CompassApp;
use routee_compass::app::compass::compass_app_error::CompassAppError;
use routee_compass::app::search::search_app_result::SearchAppResult;
use routee_compass::plugin::output::output_plugin::OutputPlugin;
use routee_compass::plugin::output::OutputPluginError;
use routee_compass_core::algorithm::search::search_instance::SearchInstance;
use serde::{Deserialize, Serialize};
use serde_json::{json, Value};
use std::collections::BTreeMap;

/// a connected-ish bidirected lattice with `n` vertices 0.01 degrees apart, optionally with a
/// second component (the last `island` vertices have no edges to the rest)
pub fn lattice_net(n: usize, island: usize, lens: &[u16]) -> NetCase {
    let n = n.max(4);
    let w = (n as f64).sqrt().ceil() as usize;
    let main = n - island.min(n - 2);
    let mut vertices = vec![];
    for i in 0..n {
        vertices.push((-105.0 + (i % w) as f32 * 0.01, 39.7 + (i / w) as f32 * 0.01));
    }
    let mut edges = vec![];
    let mut k = 0usize;
    let mut len = |a: usize, b: usize| -> f64 {
        let r = lens.get(k % lens.len().max(1)).copied().unwrap_or(0);
        k += 1;
        let base = gc_m(
            (vertices[a].0 as f64, vertices[a].1 as f64),
            (vertices[b].0 as f64, vertices[b].1 as f64),
        );
        (base * (1.01 + r as f64 / 65535.0 * 0.5) * 100.0).round() / 100.0 + 1.0
    };
    for i in 0..n {
        for j in [i + 1, i + w] {
            if j >= n {
                continue;
            }
            if j == i + 1 && (i % w) + 1 >= w {
                continue;
            }
            // no edges between the main part and the island
            if (i < main) != (j < main) {
                continue;
            }
            let l1 = len(i, j);
            edges.push((i, j, l1));
            let l2 = len(j, i);
            edges.push((j, i, l2));
        }
    }
    NetCase {
        shape: "batch-lattice".into(),
        vertices,
        edges,
        metric: true,
    }
}

#[derive(Clone, Debug, Serialize, Deserialize, PartialEq)]
pub struct BatchAppSpec {
    /// 0 ids only | 1 grid+ids | 2 vertex_rtree then grid | 3 grid then vertex_rtree + haversine balancer
    /// 4 inject + grid + custom numeric balancer | 5 edge orientation with edge_rtree | 6 speed model + small iteration limit
    /// 7 single-via k-shortest paths (C12 only)
    /// 8 energy model (ICE) with real-world adjustment and optional shared prediction cache; distinct
    ///   speeds fall into distinct cache keys | 9 the same with speeds that share cache keys (lossy cache)
    pub kind: u8,
    pub n: usize,
    pub island: usize,
    pub lens: Vec<u16>,
    pub parallelism: usize,
    pub astar: bool,
    pub with_summary: bool,
    pub iteration_limit: Option<u64>,
    /// kinds 8/9 (energy model): selects adjustment factor, cache size and model wrapper
    #[serde(default)]
    pub variant: u16,
}

pub const TOLERANCE_M: f64 = 2000.0;

impl BatchAppSpec {
    pub fn net(&self) -> NetCase {
        lattice_net(self.n, self.island, &self.lens)
    }
    pub fn uses_coordinates(&self) -> bool {
        matches!(self.kind, 2 | 3 | 5)
    }
    pub fn edge_oriented(&self) -> bool {
        self.kind == 5
    }
    pub fn input_plugins(&self) -> Vec<InPlugin> {
        match self.kind {
            1 => vec![InPlugin::GridSearch],
            2 => vec![
                InPlugin::VertexRtree {
                    tolerance: Some((TOLERANCE_M, 0)),
                },
                InPlugin::GridSearch,
            ],
            3 => vec![
                InPlugin::GridSearch,
                InPlugin::VertexRtree {
                    tolerance: Some((TOLERANCE_M / 1000.0, 1)),
                },
                InPlugin::LoadBalancerHaversine,
            ],
            4 => vec![
                InPlugin::Inject {
                    key: "injected".into(),
                    value: json!({"by": "config"}),
                    overwrite: None,
                },
                InPlugin::GridSearch,
                // numeric weights, or (A* configurations) weights named by category
                if self.astar {
                    InPlugin::LoadBalancerCategorical { column: "w".into(), with_default: self.with_summary }
                } else {
                    InPlugin::LoadBalancerCustom { column: "w".into() }
                },
            ],
            5 => vec![
                InPlugin::GridSearch,
                InPlugin::EdgeRtree {
                    tolerance: Some((TOLERANCE_M, 0)),
                },
            ],
            _ => vec![],
        }
    }
    pub fn app_spec(&self) -> AppSpec {
        let net = self.net();
        let m = net.m();
        let mut a = AppSpec::simple(net);
        a.parallelism = self.parallelism.max(1);
        a.edge_orientation = self.edge_oriented();
        a.alg = if self.kind == 7 {
            AlgSpec::SingleVia {
                k: 3,
                underlying: Box::new(AlgSpec::Dijkstra),
                sim: None,
                term: None,
            }
        } else if self.astar {
            AlgSpec::AStar { wf: None }
        } else {
            AlgSpec::Dijkstra
        };
        if self.kind == 6 {
            a.trav = TravSpec::Speed {
                speeds: (0..m).map(|i| 30.0 + ((i * 7) % 60) as f64).collect(),
                speed_unit: 0,
                dist_unit: 1,
                time_unit: 1,
            };
            a.w_dist = 0.5;
            a.w_time = 1.0;
        }
        if self.kind >= 8 {
            let v = self.variant as usize;
            let lossy = self.kind == 9;
            a.state = None;
            a.w_dist = 0.0;
            a.w_time = [0.0, 1.0][(v / 18) % 2];
            a.energy = Some(EnergyAppSpec {
                speeds_kph: (0..m)
                    .map(|i| {
                        if lossy {
                            30.0 + ((i % 5) * 10) as f64 + 0.001 * ((i / 5 + v) % 5) as f64
                        } else {
                            25.0 + ((i * 7 + v) % 60) as f64 + 0.25 * (i % 3) as f64
                        }
                    })
                    .collect(),
                grades: (0..m)
                    .map(|i| if lossy { ((i % 3) as f64 - 1.0) * 0.01 } else { (((i * 5 + v) % 9) as f64 - 4.0) * 0.01 })
                    .collect(),
                adjustment: [1.0, 1.166, 0.9][v % 3],
                cache: if lossy { [Some((100, 2, 4)), Some((3, 2, 4))][(v / 3) % 2] } else { [None, Some((100, 2, 4)), Some((3, 2, 4))][(v / 3) % 3] },
                interpolate: lossy || (v / 9) % 2 == 1,
                w_energy: 1.0,
                model: if lossy { 1 } else { ((v / 2) % 2) as u8 },
                // a quarter of the collision-free energy configurations drive a battery vehicle
                // whose starting charge comes from each query
                bev: !lossy && v % 4 == 3,
            });
        }
        a.input_plugins = self.input_plugins();
        a.output_plugins = vec![OutPlugin::Traversal {
            route: Some("edge_id".into()),
            tree: None,
        }];
        if self.with_summary {
            a.output_plugins.push(OutPlugin::Summary);
        }
        // the identifier plugin (vertex uuid table) on a share of the plain configurations
        if self.with_summary && self.astar && matches!(self.kind, 0 | 1 | 6 | 7) {
            a.output_plugins.insert(0, OutPlugin::Uuid);
        }
        a.termination = self.iteration_limit.map(|l| json!({"type": "iterations", "limit": l}));
        a
    }
}

// ---------------------------------------------------------------------------------------
// query grammar

#[derive(Clone, Debug, Serialize, Deserialize, PartialEq)]
pub enum Place {
    /// vertex index (mapped into range)
    Vertex(u16),
    /// an id beyond the network
    OutOfRange,
    /// (coordinate configurations) far from the network: beyond the tolerance
    Far,
}

#[derive(Clone, Debug, Serialize, Deserialize, PartialEq)]
pub enum Malform {
    None,
    /// origin given with the wrong JSON type
    OriginIllTyped,
    OriginMissing,
    DestinationIllTyped,
    /// load-balancer weight column: missing / text
    WeightMissing,
    WeightText,
    /// injected key already present (inject overwrites by default, so this is fine)
    InjectedPresent,
}

#[derive(Clone, Debug, Serialize, Deserialize, PartialEq)]
pub struct QuerySpec {
    pub origin: Place,
    pub destination: Place,
    /// grid axis over the destination (in addition to `destination`), 0 = no grid section
    pub grid_destinations: Vec<Place>,
    /// second grid axis over a free field
    pub grid_extra: u8,
    pub malform: Malform,
}

impl QuerySpec {
    pub fn has_grid(&self) -> bool {
        !self.grid_destinations.is_empty() || self.grid_extra > 0
    }
}

fn place_vertex(p: &Place, n: usize) -> Option<usize> {
    match p {
        Place::Vertex(v) => Some(pick_idx(*v, n)),
        _ => None,
    }
}

/// JSON of a query for this application kind; every query carries a unique "qid"
pub fn query_json(app: &BatchAppSpec, q: &QuerySpec, qid: usize) -> Value {
    let net = app.net();
    let n = net.n();
    let mut o = serde_json::Map::new();
    o.insert("qid".into(), json!(qid));
    let coord = |p: &Place| -> (f64, f64) {
        match p {
            Place::Vertex(v) => {
                let i = pick_idx(*v, n);
                // a few metres off the vertex
                (net.vertices[i].0 as f64 + 2e-5, net.vertices[i].1 as f64 - 1e-5)
            }
            Place::OutOfRange => (-105.0 + 3.0, 39.7 + 2.0),
            Place::Far => (-105.0 - 2.5, 39.7 - 1.5),
        }
    };
    let id = |p: &Place| -> Value {
        match p {
            Place::Vertex(v) => json!(pick_idx(*v, n)),
            Place::OutOfRange | Place::Far => json!(n + 1000),
        }
    };
    let coords = app.uses_coordinates();
    // origin
    match q.malform {
        Malform::OriginMissing => {}
        Malform::OriginIllTyped => {
            if coords {
                o.insert("origin_x".into(), json!("west"));
                o.insert("origin_y".into(), json!(coord(&q.origin).1));
            } else {
                o.insert("origin_vertex".into(), json!("zero"));
            }
        }
        _ => {
            if coords {
                let (x, y) = coord(&q.origin);
                o.insert("origin_x".into(), json!(x));
                o.insert("origin_y".into(), json!(y));
            } else {
                o.insert("origin_vertex".into(), id(&q.origin));
            }
        }
    }
    // destination
    if q.malform == Malform::DestinationIllTyped {
        if coords {
            o.insert("destination_x".into(), json!(true));
            o.insert("destination_y".into(), json!(coord(&q.destination).1));
        } else {
            o.insert("destination_vertex".into(), json!(-3.5));
        }
    } else if coords {
        let (x, y) = coord(&q.destination);
        o.insert("destination_x".into(), json!(x));
        o.insert("destination_y".into(), json!(y));
    } else {
        o.insert("destination_vertex".into(), id(&q.destination));
    }
    if app.kind >= 8 {
        // every third query of a combustion configuration drives the second vehicle
        let bev = app.kind == 8 && app.variant % 4 == 3;
        o.insert("model_name".into(), json!(if !bev && qid % 3 == 2 { crate::appbuild::ENERGY_VEHICLE_2 } else { ENERGY_VEHICLE }));
        if app.kind == 8 && app.variant % 4 == 3 {
            // per-query starting charge of the battery vehicle
            o.insert("starting_soc_percent".into(), json!(20 + (qid * 13) % 70));
        }
    }
    // load balancer column
    if app.kind == 4 {
        match q.malform {
            Malform::WeightMissing => {}
            Malform::WeightText => {
                o.insert("w".into(), json!("heavy"));
            }
            _ if app.astar => {
                // categorical weights; a name outside the mapping only where a default exists
                let names = ["light", "medium", "heavy", "unlisted"];
                o.insert("w".into(), json!(names[qid % if app.with_summary { 4 } else { 3 }]));
            }
            _ => {
                o.insert("w".into(), json!(1.0 + (qid % 5) as f64));
            }
        }
        if q.malform == Malform::InjectedPresent {
            o.insert("injected".into(), json!("by-user"));
        }
    }
    // grid section
    let plugins = app.input_plugins();
    let has_grid_plugin = plugins.iter().any(|p| matches!(p, InPlugin::GridSearch));
    if q.has_grid() && has_grid_plugin {
        let mut g = serde_json::Map::new();
        if !q.grid_destinations.is_empty() {
            if coords {
                // objects carrying both coordinates
                let arr: Vec<Value> = q
                    .grid_destinations
                    .iter()
                    .map(|p| {
                        let (x, y) = coord(p);
                        json!({"destination_x": x, "destination_y": y})
                    })
                    .collect();
                g.insert("dest_choice".into(), Value::Array(arr));
            } else {
                g.insert(
                    "destination_vertex".into(),
                    Value::Array(q.grid_destinations.iter().map(id).collect()),
                );
            }
        }
        if q.grid_extra > 0 {
            g.insert(
                "scenario".into(),
                Value::Array((0..q.grid_extra).map(|i| json!(format!("s{}", i))).collect()),
            );
        }
        o.insert("grid_search".into(), Value::Object(g));
    }
    Value::Object(o)
}

/// Reference model of the configured input pipeline: how many responses must this query
/// produce?  `correct` = every grid sibling answered on its own; `family_dropped` = what the
/// implementation does today when a later plugin fails for one sibling (listed finding): the
/// whole family is replaced by one error response.
#[derive(Debug, Clone, PartialEq)]
pub struct Expansion {
    pub correct: usize,
    pub family_dropped: usize,
    pub sibling_mixed: bool,
}

pub fn expansion(app: &BatchAppSpec, q: &QuerySpec) -> Expansion {
    let plugins = app.input_plugins();
    // elements are (destination place, alive)
    #[derive(Clone)]
    struct Elem {
        dest: Place,
    }
    let mut elems: Vec<Elem> = vec![Elem {
        dest: q.destination.clone(),
    }];
    let mut expanded = false;
    let mut dropped_family = false; // some sibling failed in a plugin after expansion
    let mut failed_elems = 0usize; // siblings that fail in a plugin (each is one error response)
    let mut whole_failed = false;
    for p in &plugins {
        if whole_failed {
            break;
        }
        match p {
            InPlugin::GridSearch => {
                if q.has_grid() {
                    let mut next = vec![];
                    for _e in &elems {
                        let dests: Vec<Place> = if q.grid_destinations.is_empty() {
                            vec![q.destination.clone()]
                        } else {
                            q.grid_destinations.clone()
                        };
                        for d in dests {
                            for _ in 0..q.grid_extra.max(1) {
                                next.push(Elem { dest: d.clone() });
                            }
                        }
                    }
                    elems = next;
                    expanded = true;
                }
            }
            InPlugin::VertexRtree { .. } | InPlugin::EdgeRtree { .. } => {
                let origin_ok = q.malform != Malform::OriginMissing
                    && q.malform != Malform::OriginIllTyped
                    && matches!(q.origin, Place::Vertex(_));
                let mut keep = vec![];
                for e in elems.into_iter() {
                    // the destination is ill-typed only while it has not been overwritten by a grid choice
                    let dest_ill = q.malform == Malform::DestinationIllTyped && !(expanded && !q.grid_destinations.is_empty());
                    let ok = origin_ok && !dest_ill && matches!(e.dest, Place::Vertex(_));
                    if ok {
                        keep.push(e);
                    } else if expanded {
                        failed_elems += 1;
                        dropped_family = true;
                    } else {
                        whole_failed = true;
                    }
                }
                elems = keep;
            }
            InPlugin::LoadBalancerHaversine => {
                // needs numeric origin and destination coordinates (matched already if we got here)
            }
            InPlugin::LoadBalancerCategorical { .. } => {
                // a text is what this form expects ("heavy" is one of the names); only a
                // missing weight fails
                if matches!(q.malform, Malform::WeightMissing) {
                    if expanded {
                        failed_elems += elems.len();
                        elems.clear();
                        dropped_family = true;
                    } else {
                        whole_failed = true;
                    }
                }
            }
            InPlugin::LoadBalancerCustom { .. } => {
                if matches!(q.malform, Malform::WeightMissing | Malform::WeightText) {
                    if expanded {
                        failed_elems += elems.len();
                        elems.clear();
                        dropped_family = true;
                    } else {
                        whole_failed = true;
                    }
                }
            }
            InPlugin::Inject { .. } => {}
        }
    }
    if whole_failed {
        return Expansion {
            correct: 1,
            family_dropped: 1,
            sibling_mixed: false,
        };
    }
    let correct = elems.len() + failed_elems;
    Expansion {
        correct,
        family_dropped: if dropped_family { 1 } else { correct },
        sibling_mixed: dropped_family && !elems.is_empty(),
    }
}

// ---------------------------------------------------------------------------------------
// harness plugins

/// sleeps for a per-query delay (taken from the case through the query's qid) to perturb the
/// thread schedule of the worker pool
pub struct JitterOutputPlugin {
    pub delays_us: Vec<u16>,
}

impl OutputPlugin for JitterOutputPlugin {
    fn process(
        &self,
        output: &mut Value,
        _result: &Result<(SearchAppResult, SearchInstance), CompassAppError>,
    ) -> Result<(), OutputPluginError> {
        let qid = output
            .get("request")
            .and_then(|r| r.get("qid"))
            .and_then(|q| q.as_u64())
            .unwrap_or(0) as usize;
        if !self.delays_us.is_empty() {
            let d = self.delays_us[qid % self.delays_us.len()];
            if d > 0 {
                std::thread::sleep(std::time::Duration::from_micros(d as u64));
            }
        }
        Ok(())
    }
}

/// pads successful responses with a large field (big records for the file sink)
pub struct PaddingOutputPlugin {
    pub bytes: Vec<u32>,
}

impl OutputPlugin for PaddingOutputPlugin {
    fn process(
        &self,
        output: &mut Value,
        _result: &Result<(SearchAppResult, SearchInstance), CompassAppError>,
    ) -> Result<(), OutputPluginError> {
        let qid = output
            .get("request")
            .and_then(|r| r.get("qid"))
            .and_then(|q| q.as_u64())
            .unwrap_or(0) as usize;
        if !self.bytes.is_empty() {
            let n = self.bytes[qid % self.bytes.len()] as usize;
            if n > 0 {
                let pad: String = (0..n).map(|i| (b'a' + ((i + qid) % 26) as u8) as char).collect();
                if let Some(o) = output.as_object_mut() {
                    o.insert("padding".into(), Value::String(pad));
                }
            }
        }
        Ok(())
    }
}

// ---------------------------------------------------------------------------------------
// responses

pub const VOLATILE: [&str; 4] = [
    "output_plugin_executed_time",
    "search_executed_time",
    "search_runtime",
    "search_result_size_mib",
];

fn sort_keys(v: &Value) -> Value {
    match v {
        Value::Object(m) => {
            let mut keys: Vec<&String> = m.keys().collect();
            keys.sort();
            let mut o = serde_json::Map::new();
            for k in keys {
                o.insert(k.clone(), sort_keys(&m[k]));
            }
            Value::Object(o)
        }
        Value::Array(a) => Value::Array(a.iter().map(sort_keys).collect()),
        // floats are compared at 11 significant digits: serde_json's default float parser is not
        // exactly round-tripping, so values read back from an output file may differ by an ulp
        Value::Number(n) if !n.is_i64() && !n.is_u64() => match n.as_f64() {
            Some(f) => Value::String(format!("{:.10e}", f)),
            None => v.clone(),
        },
        o => o.clone(),
    }
}

/// canonical text of a response without its volatile (clock / memory) fields
pub fn canonical(resp: &Value) -> String {
    let mut r = resp.clone();
    if let Some(o) = r.as_object_mut() {
        for k in VOLATILE {
            o.remove(k);
        }
        // the slot index of a state feature contributed by the models depends on the iteration
        // order of a hash map at application start: two builds of the same configuration may
        // number the features differently.  Values are reported by name; the index is dropped
        if let Some(sm) = o
            .get_mut("route")
            .and_then(|r| r.get_mut("state_model"))
            .and_then(|s| s.as_object_mut())
        {
            for (_, f) in sm.iter_mut() {
                if let Some(f) = f.as_object_mut() {
                    f.remove("index");
                }
            }
        }
    }
    serde_json::to_string(&sort_keys(&r)).unwrap_or_default()
}

pub fn multiset(responses: &[Value]) -> BTreeMap<String, usize> {
    let mut m = BTreeMap::new();
    for r in responses {
        *m.entry(canonical(r)).or_insert(0) += 1;
    }
    m
}

pub fn is_error(resp: &Value) -> bool {
    resp.get("error").is_some()
}

pub fn qid_of(resp: &Value) -> Option<usize> {
    resp.get("request")
        .and_then(|r| r.get("qid"))
        .and_then(|q| q.as_u64())
        .map(|q| q as usize)
}

pub fn run_app(app: &CompassApp, queries: Vec<Value>, parallelism: Option<usize>) -> Result<Vec<Value>, String> {
    let cfg = parallelism.map(|p| json!({"parallelism": p}));
    app.run(queries, cfg.as_ref()).map_err(|e| e.to_string())
}

// ---------------------------------------------------------------------------------------
// strategies

use proptest::prelude::*;

pub fn batch_app_strategy(kinds: Vec<u8>) -> BoxedStrategy<BatchAppSpec> {
    (
        proptest::sample::select(kinds),
        6usize..=20,
        prop_oneof![2 => Just(0usize), 1 => 2usize..=4],
        proptest::collection::vec(any::<u16>(), 8),
        1usize..=16,
        any::<bool>(),
        any::<bool>(),
        proptest::option::weighted(0.3, 2u64..12),
        any::<u16>(),
    )
        .prop_map(|(kind, n, island, lens, parallelism, astar, with_summary, iteration_limit, variant)| BatchAppSpec {
            kind,
            n,
            island,
            lens,
            parallelism,
            astar,
            with_summary,
            iteration_limit: if kind == 6 { iteration_limit.or(Some(5)) } else { None },
            variant: if kind >= 8 { variant % 36 } else { 0 },
        })
        .boxed()
}

pub fn place_strategy() -> impl Strategy<Value = Place> {
    prop_oneof![
        10 => any::<u16>().prop_map(Place::Vertex),
        1 => Just(Place::OutOfRange),
        1 => Just(Place::Far),
    ]
}

pub fn query_strategy() -> impl Strategy<Value = QuerySpec> {
    (
        place_strategy(),
        place_strategy(),
        prop_oneof![3 => Just(vec![]), 2 => proptest::collection::vec(place_strategy(), 1..4)],
        prop_oneof![4 => Just(0u8), 1 => 1u8..3],
        prop_oneof![
            12 => Just(Malform::None),
            1 => Just(Malform::OriginIllTyped),
            1 => Just(Malform::OriginMissing),
            1 => Just(Malform::DestinationIllTyped),
            1 => Just(Malform::WeightMissing),
            1 => Just(Malform::WeightText),
            1 => Just(Malform::InjectedPresent),
        ],
    )
        .prop_map(|(origin, destination, grid_destinations, grid_extra, malform)| QuerySpec {
            origin,
            destination,
            grid_destinations,
            grid_extra,
            malform,
        })
}

pub fn place_vertex_pub(p: &Place, n: usize) -> Option<usize> {
    place_vertex(p, n)
}

// ---------------------------------------------------------------------------------------
// JSON-level reference of the input pipeline (used by C12 where queries are arbitrary JSON)

enum Step {
    Ok(Vec<Value>),
    Fail,
    Unknown,
}

fn num(v: Option<&Value>) -> Option<Option<f64>> {
    // None = key missing, Some(None) = present but not a number
    v.map(|x| x.as_f64())
}

fn in_range(x: f64, y: f64) -> bool {
    let (x, y) = (x as f32, y as f32);
    (-180.0..=180.0).contains(&x) && (-90.0..=90.0).contains(&y)
}

fn ref_grid(e: &Value) -> Step {
    let obj = match e.as_object() {
        Some(o) => o,
        None => return Step::Ok(vec![e.clone()]),
    };
    let gs = match obj.get("grid_search") {
        Some(g) => g,
        None => return Step::Ok(vec![e.clone()]),
    };
    if serde_json::to_string(gs).map(|s| s.contains("grid_search")).unwrap_or(true) {
        return Step::Fail;
    }
    let gmap = match gs.as_object() {
        Some(m) => m,
        None => return Step::Fail,
    };
    let axes: Vec<(&String, &Vec<Value>)> = gmap
        .iter()
        .filter_map(|(k, v)| v.as_array().map(|a| (k, a)))
        .collect();
    if axes.is_empty() || axes.iter().any(|(_, a)| a.is_empty()) {
        return Step::Fail;
    }
    let total: usize = axes.iter().map(|(_, a)| a.len()).product();
    if total > 4096 {
        return Step::Unknown;
    }
    let mut base = obj.clone();
    base.remove("grid_search");
    let mut out = vec![];
    for mut t in 0..total {
        let mut inst = base.clone();
        for (k, a) in &axes {
            let c = &a[t % a.len()];
            t /= a.len();
            match c {
                Value::Object(o) => {
                    for (kk, vv) in o {
                        inst.insert(kk.clone(), vv.clone());
                    }
                }
                other => {
                    inst.insert((*k).clone(), other.clone());
                }
            }
        }
        out.push(Value::Object(inst));
    }
    Step::Ok(out)
}

fn nearest_m(net: &NetCase, anchors: &[(f32, f32)], x: f64, y: f64) -> f64 {
    let _ = net;
    let (px, py) = (x as f32, y as f32);
    let mut best = (f32::INFINITY, 0usize);
    for (i, a) in anchors.iter().enumerate() {
        let d = (a.0 - px) * (a.0 - px) + (a.1 - py) * (a.1 - py);
        if d < best.0 {
            best = (d, i);
        }
    }
    gc_m((px as f64, py as f64), (anchors[best.1].0 as f64, anchors[best.1].1 as f64))
}

fn ref_match(e: &Value, net: &NetCase, anchors: &[(f32, f32)], tol_m: f64, edge: bool) -> Step {
    let obj = match e.as_object() {
        Some(o) => o,
        None => return Step::Fail,
    };
    if edge {
        if let Some(rc) = obj.get("road_classes") {
            if serde_json::from_value::<std::collections::HashSet<u8>>(rc.clone()).is_err() {
                return Step::Fail;
            }
        }
    }
    let (ox, oy) = match (num(obj.get("origin_x")), num(obj.get("origin_y"))) {
        (Some(Some(x)), Some(Some(y))) => (x, y),
        _ => return Step::Fail,
    };
    let dest = match (num(obj.get("destination_x")), num(obj.get("destination_y"))) {
        (None, None) => None,
        (Some(Some(x)), Some(Some(y))) => Some((x, y)),
        _ => return Step::Fail,
    };
    let mut unknown = false;
    for (x, y) in std::iter::once((ox, oy)).chain(dest) {
        if !in_range(x, y) {
            return Step::Fail;
        }
        let d = nearest_m(net, anchors, x, y);
        if d > 1.1 * tol_m + 10.0 {
            return Step::Fail;
        }
        if d > 0.9 * tol_m - 10.0 {
            unknown = true;
        }
    }
    if unknown {
        return Step::Unknown;
    }
    let mut o = obj.clone();
    let (ok, dk) = if edge { ("origin_edge", "destination_edge") } else { ("origin_vertex", "destination_vertex") };
    o.insert(ok.into(), json!(0));
    if dest.is_some() {
        o.insert(dk.into(), json!(0));
    }
    Step::Ok(vec![Value::Object(o)])
}

/// how many responses must this JSON query produce under this configuration?
/// None = the reference cannot tell (tolerance band, array-typed query, huge grid)
pub fn expansion_json(app: &BatchAppSpec, q: &Value) -> Option<Expansion> {
    if !q.is_object() {
        // anything that is not an object is answered with exactly one error response
        return Some(Expansion {
            correct: 1,
            family_dropped: 1,
            sibling_mixed: false,
        });
    }
    let net = app.net();
    let vertex_anchors: Vec<(f32, f32)> = net.vertices.clone();
    let edge_anchors: Vec<(f32, f32)> = net
        .edges
        .iter()
        .map(|(a, b, _)| {
            let (p, r) = (net.vertices[*a], net.vertices[*b]);
            ((p.0 + r.0) / 2.0, (p.1 + r.1) / 2.0)
        })
        .collect();
    let mut elems = vec![q.clone()];
    let mut expanded = false;
    let mut failed = 0usize;
    let mut family_dropped = false;
    for p in app.input_plugins() {
        let mut next = vec![];
        for e in elems.iter() {
            let step = match &p {
                InPlugin::GridSearch => ref_grid(e),
                InPlugin::VertexRtree { tolerance } => {
                    let tol = tolerance.map(|(t, u)| t * crate::refmodel::dist_si(crate::refmodel::DISTANCE_UNITS[u as usize % 5])).unwrap_or(f64::INFINITY);
                    ref_match(e, &net, &vertex_anchors, tol, false)
                }
                InPlugin::EdgeRtree { tolerance } => {
                    let tol = tolerance.map(|(t, u)| t * crate::refmodel::dist_si(crate::refmodel::DISTANCE_UNITS[u as usize % 5])).unwrap_or(f64::INFINITY);
                    if edge_anchors.is_empty() {
                        Step::Unknown
                    } else {
                        ref_match(e, &net, &edge_anchors, tol, true)
                    }
                }
                InPlugin::LoadBalancerHaversine => match e.as_object() {
                    None => Step::Fail,
                    Some(obj) => {
                        let o = (num(obj.get("origin_x")), num(obj.get("origin_y")));
                        let d = (num(obj.get("destination_x")), num(obj.get("destination_y")));
                        match (o, d) {
                            ((Some(Some(ox)), Some(Some(oy))), (Some(Some(dx)), Some(Some(dy)))) => {
                                if in_range(ox, oy) && in_range(dx, dy) {
                                    Step::Ok(vec![e.clone()])
                                } else {
                                    Step::Fail
                                }
                            }
                            _ => Step::Fail,
                        }
                    }
                },
                InPlugin::LoadBalancerCategorical { column, with_default } => match e.get(column).and_then(|v| v.as_str()) {
                    Some(name) if e.is_object() && (*with_default || ["light", "medium", "heavy"].contains(&name)) => Step::Ok(vec![e.clone()]),
                    _ => Step::Fail,
                },
                InPlugin::LoadBalancerCustom { column } => match e.get(column).and_then(|v| v.as_f64()) {
                    Some(_) if e.is_object() => Step::Ok(vec![e.clone()]),
                    _ => Step::Fail,
                },
                InPlugin::Inject { key, value, .. } => match e.as_object() {
                    None => Step::Fail,
                    Some(obj) => {
                        let mut o = obj.clone();
                        o.insert(key.clone(), value.clone());
                        Step::Ok(vec![Value::Object(o)])
                    }
                },
            };
            match step {
                Step::Unknown => return None,
                Step::Fail => {
                    if expanded {
                        failed += 1;
                        family_dropped = true;
                    } else {
                        return Some(Expansion {
                            correct: 1,
                            family_dropped: 1,
                            sibling_mixed: false,
                        });
                    }
                }
                Step::Ok(v) => {
                    if v.len() != 1 || matches!(p, InPlugin::GridSearch) && e.get("grid_search").is_some() {
                        expanded = true;
                    }
                    // the pipeline flattens arrays produced by plugins; array-valued elements
                    // cannot come out of the reference plugins
                    next.extend(v);
                }
            }
        }
        elems = next;
        if elems.is_empty() {
            break;
        }
    }
    // elements that are not objects end in one invariant error for the whole query
    if elems.iter().any(|e| !e.is_object()) {
        return Some(Expansion {
            correct: 1,
            family_dropped: 1,
            sibling_mixed: false,
        });
    }
    let correct = elems.len() + failed;
    Some(Expansion {
        correct,
        family_dropped: if family_dropped { 1 } else { correct },
        sibling_mixed: family_dropped && !elems.is_empty(),
    })
}
