//! Search-instance specifications (plain data), the builder that assembles the real
//! routee-compass models from them in memory, harness-side model wrappers, and the
//! independent reference evaluator for state deltas and costs.

use crate::engine::pick_idx;
use crate::gen::NetCase;
use crate::refmodel::*;
use proptest::prelude::*;
use routee_compass_core::algorithm::search::search_instance::SearchInstance;
use routee_compass_core::model::access::access_model::AccessModel;
use routee_compass_core::model::access::default::no_access_model::NoAccessModel;
use routee_compass_core::model::access::default::turn_delays::edge_heading::EdgeHeading;
use routee_compass_core::model::access::default::turn_delays::turn::Turn;
use routee_compass_core::model::access::default::turn_delays::turn_delay_access_model::TurnDelayAccessModel;
use routee_compass_core::model::access::default::turn_delays::turn_delay_access_model_engine::TurnDelayAccessModelEngine;
use routee_compass_core::model::access::default::turn_delays::turn_delay_model::TurnDelayModel;
use routee_compass_core::model::cost::cost_aggregation::CostAggregation;
use routee_compass_core::model::cost::cost_model::CostModel;
use routee_compass_core::model::cost::network::network_cost_rate::NetworkCostRate;
use routee_compass_core::model::cost::vehicle::vehicle_cost_rate::VehicleCostRate;
use routee_compass_core::model::frontier::default::no_restriction::NoRestriction;
use routee_compass_core::model::frontier::frontier_model::FrontierModel;
use routee_compass_core::model::frontier::frontier_model_error::FrontierModelError;
use routee_compass_core::model::network::{Edge, EdgeId, Vertex};
use routee_compass_core::model::state::state_feature::StateFeature;
use routee_compass_core::model::state::state_model::StateModel;
use routee_compass_core::model::termination::termination_model::TerminationModel;
use routee_compass_core::model::traversal::default::distance_traversal_model::DistanceTraversalModel;
use routee_compass_core::model::traversal::default::speed_traversal_engine::SpeedTraversalEngine;
use routee_compass_core::model::traversal::default::speed_traversal_model::SpeedTraversalModel;
use routee_compass_core::model::traversal::state::state_variable::StateVar;
use routee_compass_core::model::traversal::traversal_model::TraversalModel;
use routee_compass_core::model::traversal::traversal_model_error::TraversalModelError;
use routee_compass_core::model::unit::{Cost, Distance, Speed, Time};
use serde::{Deserialize, Serialize};
use std::collections::HashMap;
use std::sync::atomic::{AtomicU64, Ordering};
use std::sync::{Arc, Mutex};

pub const DIST: &str = "distance";
pub const TIME: &str = "time";

#[derive(Clone, Debug, Serialize, Deserialize, PartialEq)]
pub enum TravSpec {
    /// unit index = the traversal model's own unit
    Distance { unit: u8 },
    Speed {
        speeds: Vec<f64>,
        speed_unit: u8,
        dist_unit: u8,
        time_unit: u8,
    },
}

#[derive(Clone, Debug, Serialize, Deserialize, PartialEq)]
pub struct TurnDelaySpec {
    /// (start heading, end heading) per edge, 0..359
    pub headings: Vec<(i16, i16)>,
    /// delay per turn class in the order of `TURN_NAMES`
    pub delays: [f64; 8],
    pub time_unit: u8,
}

pub const TURN_NAMES: [&str; 8] = [
    "no_turn",
    "slight_right",
    "slight_left",
    "right",
    "left",
    "sharp_right",
    "sharp_left",
    "u_turn",
];

pub fn turn_of(idx: usize) -> Turn {
    match idx {
        0 => Turn::NoTurn,
        1 => Turn::SlightRight,
        2 => Turn::SlightLeft,
        3 => Turn::Right,
        4 => Turn::Left,
        5 => Turn::SharpRight,
        6 => Turn::SharpLeft,
        _ => Turn::UTurn,
    }
}

pub fn turn_index(t: &Turn) -> usize {
    match t {
        Turn::NoTurn => 0,
        Turn::SlightRight => 1,
        Turn::SlightLeft => 2,
        Turn::Right => 3,
        Turn::Left => 4,
        Turn::SharpRight => 5,
        Turn::SharpLeft => 6,
        Turn::UTurn => 7,
    }
}

#[derive(Clone, Debug, Serialize, Deserialize, PartialEq)]
pub enum RateSpec {
    Zero,
    Raw,
    Factor(f64),
    Offset(f64),
    Combined(Vec<RateSpec>),
}

impl RateSpec {
    pub fn to_impl(&self) -> VehicleCostRate {
        match self {
            RateSpec::Zero => VehicleCostRate::Zero,
            RateSpec::Raw => VehicleCostRate::Raw,
            RateSpec::Factor(f) => VehicleCostRate::Factor { factor: *f },
            RateSpec::Offset(o) => VehicleCostRate::Offset { offset: *o },
            RateSpec::Combined(v) => {
                VehicleCostRate::Combined(v.iter().map(|r| r.to_impl()).collect())
            }
        }
    }
    /// reference evaluation: left-to-right fold for Combined
    pub fn eval(&self, x: f64) -> f64 {
        match self {
            RateSpec::Zero => 0.0,
            RateSpec::Raw => x,
            RateSpec::Factor(f) => x * f,
            RateSpec::Offset(o) => x + o,
            RateSpec::Combined(v) => {
                let mut acc = x;
                for r in v {
                    acc = r.eval(acc);
                }
                acc
            }
        }
    }
    pub fn to_json(&self) -> serde_json::Value {
        match self {
            RateSpec::Zero => serde_json::json!({"type": "zero"}),
            RateSpec::Raw => serde_json::json!({"type": "raw"}),
            RateSpec::Factor(f) => serde_json::json!({"type": "factor", "factor": f}),
            RateSpec::Offset(o) => serde_json::json!({"type": "offset", "offset": o}),
            RateSpec::Combined(v) => {
                serde_json::json!({"type": "combined", "mappings": v.iter().map(|r| r.to_json()).collect::<Vec<_>>()})
            }
        }
    }
}

#[derive(Clone, Debug, Serialize, Deserialize, PartialEq)]
pub struct CostSpec {
    pub w_dist: f64,
    pub w_time: f64,
    pub r_dist: RateSpec,
    pub r_time: RateSpec,
    /// per-edge surcharge on the named feature (0 = distance, 1 = time)
    pub edge_surcharge: Option<(u8, Vec<f64>)>,
    /// per-(prev,next) surcharge on the named feature
    pub pair_surcharge: Option<(u8, Vec<(usize, usize, f64)>)>,
    pub mul: bool,
}

impl CostSpec {
    pub fn distance_only() -> CostSpec {
        CostSpec {
            w_dist: 1.0,
            w_time: 0.0,
            r_dist: RateSpec::Raw,
            r_time: RateSpec::Zero,
            edge_surcharge: None,
            pair_surcharge: None,
            mul: false,
        }
    }
}

#[derive(Clone, Debug, Serialize, Deserialize, PartialEq)]
pub struct StateSpec {
    pub dist_unit: u8,
    pub dist_init: f64,
    pub time_unit: u8,
    pub time_init: f64,
}

#[derive(Clone, Debug, Serialize, Deserialize, PartialEq)]
pub struct SiSpec {
    pub net: NetCase,
    pub trav: TravSpec,
    pub access: Option<TurnDelaySpec>,
    pub cost: CostSpec,
    pub state: StateSpec,
    /// edge-local restriction: allowed[e]
    pub allowed: Option<Vec<bool>>,
    /// restricted (prev, next) edge pairs
    pub restricted_turns: Vec<(usize, usize)>,
}

impl SiSpec {
    pub fn has_time(&self) -> bool {
        matches!(self.trav, TravSpec::Speed { .. })
    }
    pub fn edge_allowed(&self, e: usize) -> bool {
        self.allowed
            .as_ref()
            .map(|a| a.get(e).copied().unwrap_or(true))
            .unwrap_or(true)
    }
}

// ---------------------------------------------------------------------------------------
// harness-side models

/// edge-local allow list plus restricted turn pairs (independent re-implementation of what
/// the application-level frontier models do; used where the search core is under test)
pub struct SpecFrontier {
    pub allowed: Option<Vec<bool>>,
    pub restricted: std::collections::HashSet<(usize, usize)>,
}

impl FrontierModel for SpecFrontier {
    fn valid_frontier(
        &self,
        edge: &Edge,
        _state: &[StateVar],
        previous_edge: Option<&Edge>,
        _state_model: &StateModel,
    ) -> Result<bool, FrontierModelError> {
        if let Some(a) = &self.allowed {
            if !a.get(edge.edge_id.0).copied().unwrap_or(true) {
                return Ok(false);
            }
        }
        if let Some(p) = previous_edge {
            if self.restricted.contains(&(p.edge_id.0, edge.edge_id.0)) {
                return Ok(false);
            }
        }
        Ok(true)
    }
}

/// records every `valid_frontier` call: (edge, previous edge). One expansion step of the
/// search offers all incident edges of one vertex, so the call sequence exposes the work done.
pub struct CountingFrontier {
    pub inner: Arc<dyn FrontierModel>,
    pub calls: Mutex<Vec<(usize, Option<usize>)>>,
}

impl CountingFrontier {
    pub fn new(inner: Arc<dyn FrontierModel>) -> CountingFrontier {
        CountingFrontier {
            inner,
            calls: Mutex::new(vec![]),
        }
    }
    pub fn take(&self) -> Vec<(usize, Option<usize>)> {
        std::mem::take(&mut *self.calls.lock().unwrap())
    }
}

impl FrontierModel for CountingFrontier {
    fn valid_frontier(
        &self,
        edge: &Edge,
        state: &[StateVar],
        previous_edge: Option<&Edge>,
        state_model: &StateModel,
    ) -> Result<bool, FrontierModelError> {
        self.calls
            .lock()
            .unwrap()
            .push((edge.edge_id.0, previous_edge.map(|e| e.edge_id.0)));
        self.inner
            .valid_frontier(edge, state, previous_edge, state_model)
    }
}

/// counts `traverse_edge` calls and optionally sleeps once at the k-th call
pub struct SleepingTraversal {
    pub inner: Arc<dyn TraversalModel>,
    pub count: AtomicU64,
    pub sleep_at: Option<u64>,
    pub sleep_for: std::time::Duration,
}

impl TraversalModel for SleepingTraversal {
    fn state_features(&self) -> Vec<(String, StateFeature)> {
        self.inner.state_features()
    }
    fn traverse_edge(
        &self,
        trajectory: (&Vertex, &Edge, &Vertex),
        state: &mut Vec<StateVar>,
        state_model: &StateModel,
    ) -> Result<(), TraversalModelError> {
        let k = self.count.fetch_add(1, Ordering::SeqCst);
        if Some(k) == self.sleep_at {
            std::thread::sleep(self.sleep_for);
        }
        self.inner.traverse_edge(trajectory, state, state_model)
    }
    fn estimate_traversal(
        &self,
        od: (&Vertex, &Vertex),
        state: &mut Vec<StateVar>,
        state_model: &StateModel,
    ) -> Result<(), TraversalModelError> {
        self.inner.estimate_traversal(od, state, state_model)
    }
}

// ---------------------------------------------------------------------------------------
// builder

pub struct Built {
    pub si: SearchInstance,
    pub counting: Option<Arc<CountingFrontier>>,
}

pub fn build_state_model(spec: &SiSpec) -> StateModel {
    let mut feats = vec![(
        DIST.to_string(),
        StateFeature::Distance {
            distance_unit: DISTANCE_UNITS[spec.state.dist_unit as usize % 5],
            initial: Distance::new(spec.state.dist_init),
        },
    )];
    if spec.has_time() {
        feats.push((
            TIME.to_string(),
            StateFeature::Time {
                time_unit: TIME_UNITS[spec.state.time_unit as usize % 4],
                initial: Time::new(spec.state.time_init),
            },
        ));
    }
    StateModel::new(feats)
}

pub fn build_traversal(spec: &SiSpec) -> Arc<dyn TraversalModel> {
    match &spec.trav {
        TravSpec::Distance { unit } => Arc::new(DistanceTraversalModel::new(
            DISTANCE_UNITS[*unit as usize % 5],
        )),
        TravSpec::Speed {
            speeds,
            speed_unit,
            dist_unit,
            time_unit,
        } => {
            let table: Vec<Speed> = speeds.iter().map(|s| Speed::new(*s)).collect();
            let max = speeds.iter().cloned().fold(0.0f64, f64::max);
            let engine = SpeedTraversalEngine {
                speed_table: table.into_boxed_slice(),
                speed_unit: SPEED_UNITS[*speed_unit as usize % 3],
                time_unit: TIME_UNITS[*time_unit as usize % 4],
                distance_unit: DISTANCE_UNITS[*dist_unit as usize % 5],
                max_speed: Speed::new(max),
            };
            Arc::new(SpeedTraversalModel::new(Arc::new(engine)))
        }
    }
}

pub fn build_access(spec: &SiSpec) -> Arc<dyn AccessModel> {
    match &spec.access {
        None => Arc::new(NoAccessModel {}),
        Some(td) => {
            let headings: Vec<EdgeHeading> = td
                .headings
                .iter()
                .map(|(a, b)| {
                    if a == b {
                        // the form a table row without departure heading deserialises to
                        serde_json::from_value::<EdgeHeading>(serde_json::json!({"arrival_heading": a})).unwrap_or_else(|_| EdgeHeading::new(*a, *b))
                    } else {
                        EdgeHeading::new(*a, *b)
                    }
                })
                .collect();
            let mut table = HashMap::new();
            for i in 0..8 {
                table.insert(turn_of(i), Time::new(td.delays[i]));
            }
            let engine = TurnDelayAccessModelEngine {
                edge_headings: headings.into_boxed_slice(),
                turn_delay_model: TurnDelayModel::TabularDiscrete {
                    table,
                    time_unit: TIME_UNITS[td.time_unit as usize % 4],
                },
                time_feature_name: TIME.to_string(),
            };
            Arc::new(TurnDelayAccessModel {
                engine: Arc::new(engine),
            })
        }
    }
}

pub fn build_cost(spec: &SiSpec, state_model: Arc<StateModel>) -> Result<CostModel, String> {
    let c = &spec.cost;
    let mut weights = HashMap::new();
    let mut rates = HashMap::new();
    let mut nrates: HashMap<String, NetworkCostRate> = HashMap::new();
    weights.insert(DIST.to_string(), c.w_dist);
    rates.insert(DIST.to_string(), c.r_dist.to_impl());
    if spec.has_time() {
        weights.insert(TIME.to_string(), c.w_time);
        rates.insert(TIME.to_string(), c.r_time.to_impl());
    }
    let fname = |f: u8| -> String {
        if f == 1 && spec.has_time() {
            TIME.to_string()
        } else {
            DIST.to_string()
        }
    };
    let mut per_feature: HashMap<String, Vec<NetworkCostRate>> = HashMap::new();
    if let Some((f, table)) = &c.edge_surcharge {
        let lookup: HashMap<EdgeId, Cost> = table
            .iter()
            .enumerate()
            .filter(|(_, v)| **v != 0.0)
            .map(|(i, v)| (EdgeId(i), Cost::new(*v)))
            .collect();
        per_feature
            .entry(fname(*f))
            .or_default()
            .push(NetworkCostRate::EdgeLookup { lookup });
    }
    if let Some((f, pairs)) = &c.pair_surcharge {
        let lookup: HashMap<(EdgeId, EdgeId), Cost> = pairs
            .iter()
            .map(|(a, b, v)| ((EdgeId(*a), EdgeId(*b)), Cost::new(*v)))
            .collect();
        per_feature
            .entry(fname(*f))
            .or_default()
            .push(NetworkCostRate::EdgeEdgeLookup { lookup });
    }
    for (k, mut v) in per_feature {
        if v.len() == 1 {
            nrates.insert(k, v.remove(0));
        } else {
            nrates.insert(k, NetworkCostRate::Combined(v));
        }
    }
    CostModel::new(
        Arc::new(weights),
        Arc::new(rates),
        Arc::new(nrates),
        if c.mul {
            CostAggregation::Mul
        } else {
            CostAggregation::Sum
        },
        state_model,
    )
    .map_err(|e| e.to_string())
}

pub struct BuildOpts {
    pub counting: bool,
    pub termination: Option<TerminationModel>,
    pub traversal_wrapper: Option<Box<dyn FnOnce(Arc<dyn TraversalModel>) -> Arc<dyn TraversalModel>>>,
}

impl Default for BuildOpts {
    fn default() -> Self {
        BuildOpts {
            counting: false,
            termination: None,
            traversal_wrapper: None,
        }
    }
}

pub fn build_si(spec: &SiSpec, opts: BuildOpts) -> Result<Built, String> {
    let graph = Arc::new(spec.net.graph());
    let state_model = Arc::new(build_state_model(spec));
    let mut traversal = build_traversal(spec);
    if let Some(w) = opts.traversal_wrapper {
        traversal = w(traversal);
    }
    let access = build_access(spec);
    let cost = build_cost(spec, state_model.clone())?;
    let base: Arc<dyn FrontierModel> = if spec.allowed.is_none() && spec.restricted_turns.is_empty()
    {
        Arc::new(NoRestriction {})
    } else {
        Arc::new(SpecFrontier {
            allowed: spec.allowed.clone(),
            restricted: spec.restricted_turns.iter().cloned().collect(),
        })
    };
    let (frontier, counting): (Arc<dyn FrontierModel>, Option<Arc<CountingFrontier>>) =
        if opts.counting {
            let c = Arc::new(CountingFrontier::new(base));
            (c.clone(), Some(c))
        } else {
            (base, None)
        };
    let termination = opts.termination.unwrap_or(TerminationModel::IterationsLimit {
        limit: 10_000_000,
    });
    Ok(Built {
        si: SearchInstance {
            directed_graph: graph,
            state_model,
            traversal_model: traversal,
            access_model: access,
            cost_model: Arc::new(cost),
            frontier_model: frontier,
            termination_model: Arc::new(termination),
        },
        counting,
    })
}

// ---------------------------------------------------------------------------------------
// reference evaluator

/// Independent evaluation of what an edge / a turn adds to the state, in the *state
/// feature's* unit, with SI unit factors.
pub struct RefEval<'a> {
    pub spec: &'a SiSpec,
}

impl<'a> RefEval<'a> {
    pub fn new(spec: &'a SiSpec) -> RefEval<'a> {
        RefEval { spec }
    }
    pub fn dist_unit(&self) -> routee_compass_core::model::unit::DistanceUnit {
        DISTANCE_UNITS[self.spec.state.dist_unit as usize % 5]
    }
    pub fn time_unit(&self) -> routee_compass_core::model::unit::TimeUnit {
        TIME_UNITS[self.spec.state.time_unit as usize % 4]
    }
    /// distance added by edge e, in the distance feature's unit
    pub fn d_dist(&self, e: usize) -> f64 {
        self.spec.net.edges[e].2 / dist_si(self.dist_unit())
    }
    /// time added by traversing edge e, in the time feature's unit
    pub fn d_time(&self, e: usize) -> f64 {
        match &self.spec.trav {
            TravSpec::Distance { .. } => 0.0,
            TravSpec::Speed {
                speeds, speed_unit, ..
            } => {
                let v = speeds[e] * speed_si(SPEED_UNITS[*speed_unit as usize % 3]);
                (self.spec.net.edges[e].2 / v) / time_si(self.time_unit())
            }
        }
    }
    /// heading change in degrees wrapped into [-180, 180]
    pub fn angle(&self, prev: usize, next: usize) -> Option<i32> {
        let td = self.spec.access.as_ref()?;
        let end_prev = td.headings[prev].1 as i32;
        let start_next = td.headings[next].0 as i32;
        let mut a = start_next - end_prev;
        while a > 180 {
            a -= 360;
        }
        while a < -180 {
            a += 360;
        }
        Some(a)
    }
    /// delay of the turn prev->next in the time feature's unit; the turn *class* of the
    /// independently computed angle is taken from the implementation's classifier (the
    /// property fixes no degree boundaries; the classifier's laws are checked separately)
    pub fn d_turn(&self, prev: usize, next: usize) -> f64 {
        match &self.spec.access {
            None => 0.0,
            Some(td) => {
                let a = self.angle(prev, next).unwrap_or(0);
                let class = Turn::from_angle(a as i16)
                    .map(|t| turn_index(&t))
                    .unwrap_or(0);
                td.delays[class] * time_si(TIME_UNITS[td.time_unit as usize % 4])
                    / time_si(self.time_unit())
            }
        }
    }
    fn surcharge_edge(&self, feature: u8, e: usize) -> f64 {
        match &self.spec.cost.edge_surcharge {
            Some((f, table)) => {
                let f_eff = if *f == 1 && self.spec.has_time() { 1 } else { 0 };
                if f_eff == feature {
                    table.get(e).copied().unwrap_or(0.0)
                } else {
                    0.0
                }
            }
            None => 0.0,
        }
    }
    fn surcharge_pair(&self, feature: u8, prev: usize, next: usize) -> f64 {
        match &self.spec.cost.pair_surcharge {
            Some((f, pairs)) => {
                let f_eff = if *f == 1 && self.spec.has_time() { 1 } else { 0 };
                if f_eff == feature {
                    // last entry wins, as in a HashMap built from the list
                    pairs
                        .iter()
                        .rev()
                        .find(|(a, b, _)| *a == prev && *b == next)
                        .map(|(_, _, v)| *v)
                        .unwrap_or(0.0)
                } else {
                    0.0
                }
            }
            None => 0.0,
        }
    }
    /// un-floored reference total for traversing e after prev (sum aggregation):
    /// sum_f w_f * (rate_f(delta_f) + per-edge surcharge_f)
    pub fn total_unfloored(&self, prev: Option<usize>, e: usize) -> f64 {
        let c = &self.spec.cost;
        let dd = self.d_dist(e);
        let dt = self.d_time(e) + prev.map(|p| self.d_turn(p, e)).unwrap_or(0.0);
        let mut total = c.w_dist * (c.r_dist.eval(dd) + self.surcharge_edge(0, e));
        if self.spec.has_time() {
            total += c.w_time * (c.r_time.eval(dt) + self.surcharge_edge(1, e));
        }
        total
    }
    /// reference access share (un-floored): w * rate(delta due to the turn) + pair surcharge
    pub fn access_unfloored(&self, prev: usize, e: usize) -> f64 {
        let c = &self.spec.cost;
        let mut total = c.w_dist * (c.r_dist.eval(0.0) + self.surcharge_pair(0, prev, e));
        if self.spec.has_time() {
            total += c.w_time * (c.r_time.eval(self.d_turn(prev, e)) + self.surcharge_pair(1, prev, e));
        }
        total
    }
    pub fn floor(x: f64) -> f64 {
        if x <= 0.0 {
            1e-10
        } else {
            x
        }
    }
    /// history-independent edge cost (no access model)
    pub fn edge_cost(&self, e: usize) -> f64 {
        Self::floor(self.total_unfloored(None, e))
    }
}

// ---------------------------------------------------------------------------------------
// strategies

pub fn trav_strategy(m: usize, allow_speed: bool) -> BoxedStrategy<TravSpec> {
    let dist = (0u8..5).prop_map(|unit| TravSpec::Distance { unit });
    if !allow_speed {
        return dist.boxed();
    }
    let speed = (
        proptest::collection::vec(5.0f64..130.0, m.max(1)),
        0u8..3,
        0u8..5,
        0u8..4,
    )
        .prop_map(|(speeds, speed_unit, dist_unit, time_unit)| TravSpec::Speed {
            speeds: speeds.into_iter().map(|s| (s * 10.0).round() / 10.0).collect(),
            speed_unit,
            dist_unit,
            time_unit,
        });
    prop_oneof![1 => dist, 2 => speed].boxed()
}

pub fn state_strategy() -> impl Strategy<Value = StateSpec> {
    (
        0u8..5,
        prop_oneof![3 => Just(0.0f64), 1 => (0.0f64..50.0).prop_map(|v| (v * 8.0).round() / 8.0)],
        0u8..4,
        prop_oneof![3 => Just(0.0f64), 1 => (0.0f64..50.0).prop_map(|v| (v * 8.0).round() / 8.0)],
    )
        .prop_map(|(dist_unit, dist_init, time_unit, time_init)| StateSpec {
            dist_unit,
            dist_init,
            time_unit,
            time_init,
        })
}

pub fn turn_delay_strategy(m: usize) -> impl Strategy<Value = TurnDelaySpec> {
    (
        // a quarter of the edges are straight (end heading = start heading): such an edge is
        // written without a departure heading, which is optional in the heading table
        proptest::collection::vec(
            prop_oneof![3 => (0i16..360, 0i16..360), 1 => (0i16..360).prop_map(|a| (a, a))],
            m.max(1),
        ),
        proptest::array::uniform8(prop_oneof![1 => Just(0.0f64), 4 => (0.0f64..30.0).prop_map(|v| (v * 4.0).round() / 4.0)]),
        0u8..4,
    )
        .prop_map(|(headings, delays, time_unit)| TurnDelaySpec {
            headings,
            delays,
            time_unit,
        })
}

/// non-negative rated blends only (the domain of C02): raw, factor >= 0, combined of those
pub fn rate_nonneg() -> BoxedStrategy<RateSpec> {
    let leaf = prop_oneof![
        3 => Just(RateSpec::Raw),
        3 => (0.0f64..100.0).prop_map(|f| RateSpec::Factor((f * 16.0).round() / 16.0)),
    ];
    prop_oneof![
        4 => leaf.clone(),
        1 => proptest::collection::vec(leaf, 1..3).prop_map(RateSpec::Combined),
    ]
    .boxed()
}

/// any rate incl. offsets and negative factors (C03, C07)
pub fn rate_any() -> BoxedStrategy<RateSpec> {
    let leaf = prop_oneof![
        1 => Just(RateSpec::Zero),
        3 => Just(RateSpec::Raw),
        3 => (-10.0f64..100.0).prop_map(|f| RateSpec::Factor((f * 16.0).round() / 16.0)),
        2 => (-5.0f64..5.0).prop_map(|f| RateSpec::Offset((f * 16.0).round() / 16.0)),
    ];
    prop_oneof![
        4 => leaf.clone(),
        1 => proptest::collection::vec(leaf, 1..4).prop_map(RateSpec::Combined),
    ]
    .boxed()
}

/// non-negative weights with positive sum; zeros included
pub fn weights_nonneg(has_time: bool) -> BoxedStrategy<(f64, f64)> {
    let w = || prop_oneof![1 => Just(0.0f64), 1 => Just(1.0f64), 3 => (0.01f64..10.0).prop_map(|v| (v * 64.0).round() / 64.0)];
    if has_time {
        (w(), w())
            .prop_map(|(a, b)| if a + b == 0.0 { (1.0, 0.0) } else { (a, b) })
            .boxed()
    } else {
        w().prop_map(|a| if a == 0.0 { (1.0, 0.0) } else { (a, 0.0) }).boxed()
    }
}

pub fn cost_nonneg(m: usize, has_time: bool) -> BoxedStrategy<CostSpec> {
    (
        weights_nonneg(has_time),
        rate_nonneg(),
        rate_nonneg(),
        proptest::option::weighted(
            0.3,
            (0u8..2, proptest::collection::vec(prop_oneof![2 => Just(0.0f64), 1 => (0.0f64..50.0).prop_map(|v| (v * 4.0).round() / 4.0)], m.max(1))),
        ),
    )
        .prop_map(|((w_dist, w_time), r_dist, r_time, edge_surcharge)| CostSpec {
            w_dist,
            w_time,
            r_dist,
            r_time,
            edge_surcharge,
            pair_surcharge: None,
            mul: false,
        })
        .boxed()
}

/// edge-local allow list: each edge allowed with probability ~0.8
pub fn allowed_strategy(m: usize) -> impl Strategy<Value = Option<Vec<bool>>> {
    proptest::option::weighted(0.5, proptest::collection::vec(proptest::bool::weighted(0.8), m.max(1)))
}

pub fn restricted_turns_strategy(m: usize) -> impl Strategy<Value = Vec<(usize, usize)>> {
    proptest::collection::vec((any::<u16>(), any::<u16>()), 0..6).prop_map(move |v| {
        v.into_iter()
            .map(|(a, b)| (pick_idx(a, m.max(1)), pick_idx(b, m.max(1))))
            .collect()
    })
}

// ---------------------------------------------------------------------------------------
// algorithms

use routee_compass_core::algorithm::search::ksp::ksp_termination_criteria::KspTerminationCriteria;
use routee_compass_core::algorithm::search::search_algorithm::SearchAlgorithm;
use routee_compass_core::algorithm::search::util::route_similarity_function::RouteSimilarityFunction;

#[derive(Clone, Debug, Serialize, Deserialize, PartialEq)]
pub enum SimSpec {
    AcceptAll,
    EdgeCos(f64),
    DistCos(f64),
}

impl SimSpec {
    pub fn to_impl(&self) -> RouteSimilarityFunction {
        match self {
            SimSpec::AcceptAll => RouteSimilarityFunction::AcceptAll,
            SimSpec::EdgeCos(t) => RouteSimilarityFunction::EdgeIdCosineSimilarity { threshold: *t },
            SimSpec::DistCos(t) => {
                RouteSimilarityFunction::DistanceWeightedCosineSimilarity { threshold: *t }
            }
        }
    }
}

#[derive(Clone, Debug, Serialize, Deserialize, PartialEq)]
pub enum KspTermSpec {
    Exact,
    MaxIteration(u64),
    Factor(u64),
}

impl KspTermSpec {
    pub fn to_impl(&self) -> KspTerminationCriteria {
        match self {
            KspTermSpec::Exact => KspTerminationCriteria::Exact,
            KspTermSpec::MaxIteration(m) => KspTerminationCriteria::MaxIteration { max: *m },
            KspTermSpec::Factor(f) => KspTerminationCriteria::Factor { factor: *f },
        }
    }
}

#[derive(Clone, Debug, Serialize, Deserialize, PartialEq)]
pub enum AlgSpec {
    Dijkstra,
    /// configured weight factor (None = the A* default of 1)
    AStar { wf: Option<f64> },
    SingleVia {
        k: usize,
        underlying: Box<AlgSpec>,
        sim: Option<SimSpec>,
        term: Option<KspTermSpec>,
    },
    Yens {
        k: usize,
        underlying: Box<AlgSpec>,
        sim: Option<SimSpec>,
        term: Option<KspTermSpec>,
    },
}

impl AlgSpec {
    /// the algorithm as the application obtains it: deserialised from its configuration form
    /// (`appbuild::alg_json`, what an `[algorithm]` section says); direct construction only if
    /// that form were rejected
    pub fn to_impl(&self) -> SearchAlgorithm {
        serde_json::from_value(crate::appbuild::alg_json(self)).unwrap_or_else(|_| self.to_impl_direct())
    }
    pub fn to_impl_direct(&self) -> SearchAlgorithm {
        match self {
            AlgSpec::Dijkstra => SearchAlgorithm::Dijkstra,
            AlgSpec::AStar { wf } => SearchAlgorithm::AStarAlgorithm {
                weight_factor: wf.map(Cost::new),
            },
            AlgSpec::SingleVia {
                k,
                underlying,
                sim,
                term,
            } => SearchAlgorithm::KspSingleVia {
                k: *k,
                underlying: Box::new(underlying.to_impl_direct()),
                similarity: sim.as_ref().map(|s| s.to_impl()),
                termination: term.as_ref().map(|t| t.to_impl()),
            },
            AlgSpec::Yens {
                k,
                underlying,
                sim,
                term,
            } => SearchAlgorithm::Yens {
                k: *k,
                underlying: Box::new(underlying.to_impl()),
                similarity: sim.as_ref().map(|s| s.to_impl()),
                termination: term.as_ref().map(|t| t.to_impl()),
            },
        }
    }
    pub fn name(&self) -> &'static str {
        match self {
            AlgSpec::Dijkstra => "dijkstra",
            AlgSpec::AStar { .. } => "a*",
            AlgSpec::SingleVia { .. } => "single-via",
            AlgSpec::Yens { .. } => "yens",
        }
    }
    pub fn is_ksp(&self) -> bool {
        matches!(self, AlgSpec::SingleVia { .. } | AlgSpec::Yens { .. })
    }
    pub fn is_yens(&self) -> bool {
        matches!(self, AlgSpec::Yens { .. })
    }
}

pub fn wf_any() -> impl Strategy<Value = Option<f64>> {
    prop_oneof![
        2 => Just(None),
        1 => Just(Some(0.0)),
        1 => Just(Some(0.5)),
        1 => Just(Some(1.0)),
        1 => Just(Some(2.0)),
        1 => Just(Some(10.0)),
    ]
}

pub fn base_alg() -> impl Strategy<Value = AlgSpec> {
    prop_oneof![
        1 => Just(AlgSpec::Dijkstra),
        2 => wf_any().prop_map(|wf| AlgSpec::AStar { wf }),
    ]
}

pub fn sim_strategy() -> impl Strategy<Value = Option<SimSpec>> {
    prop_oneof![
        2 => Just(None),
        1 => Just(Some(SimSpec::AcceptAll)),
        2 => (0.0f64..1.2).prop_map(|t| Some(SimSpec::EdgeCos((t * 20.0).round() / 20.0))),
        2 => (0.0f64..1.2).prop_map(|t| Some(SimSpec::DistCos((t * 20.0).round() / 20.0))),
    ]
}

pub fn ksp_term_strategy() -> impl Strategy<Value = Option<KspTermSpec>> {
    prop_oneof![
        3 => Just(None),
        1 => Just(Some(KspTermSpec::Exact)),
        1 => (0u64..10).prop_map(|m| Some(KspTermSpec::MaxIteration(m))),
        1 => (0u64..4).prop_map(|m| Some(KspTermSpec::Factor(m))),
    ]
}

pub fn any_alg() -> impl Strategy<Value = AlgSpec> {
    prop_oneof![
        5 => base_alg(),
        4 => (1usize..5, base_alg(), sim_strategy(), ksp_term_strategy()).prop_map(|(k, u, sim, term)| AlgSpec::SingleVia { k, underlying: Box::new(u), sim, term }),
        1 => (1usize..5, base_alg(), sim_strategy(), ksp_term_strategy()).prop_map(|(k, u, sim, term)| AlgSpec::Yens { k, underlying: Box::new(u), sim, term }),
    ]
}
