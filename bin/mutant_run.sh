#!/bin/sh
# usage: bin/mutant_run.sh [-R] <patch file> <ID> [<ID> ...]
# Applies the patch (with -R: reverses a fix commit), runs the quick checks, and always restores
# the tree afterwards.  Prints one line per check: exit code + verdict.
# By default the patch is applied to /repo's working tree itself.  With MUT_ROOT=<dir> set, the
# run happens in a scratch root instead: <dir>/repo is a git worktree of /repo's HEAD and
# <dir>/verif a copy of /verif's committed HEAD, so /repo and /verif stay untouched and
# development can go on in parallel; the harness's relative path dependency resolves inside <dir>.
REV=""
if [ "$1" = "-R" ]; then REV="-R"; shift; fi
PATCH=$(realpath "$1"); shift
ROOT=$(cd "$(dirname "$0")/.." && pwd)
REPO=${VERIF_REPO:-/repo}
if [ -n "$MUT_ROOT" ]; then
  mkdir -p "$MUT_ROOT"
  if [ ! -d "$MUT_ROOT/repo" ]; then git -C /repo worktree add -f --detach "$MUT_ROOT/repo" HEAD >/dev/null 2>&1 || exit 2; fi
  git -C "$MUT_ROOT/repo" checkout -q --detach "$(git -C /repo rev-parse HEAD)" 2>/dev/null
  git -C "$MUT_ROOT/repo" checkout -- .
  # the *committed* state of /verif (git archive HEAD), so that work in progress in the working
  # directory cannot break a sensitivity run; build output lives in $MUT_ROOT/target
  rm -rf "$MUT_ROOT/verif"; mkdir -p "$MUT_ROOT/verif"
  git -C "$ROOT" archive "${MUT_VERIF_REV:-HEAD}" | tar -x -C "$MUT_ROOT/verif" || exit 2
  REPO="$MUT_ROOT/repo"; ROOT="$MUT_ROOT/verif"
  export CARGO_TARGET_DIR="$MUT_ROOT/target"
fi
if ! git -C "$REPO" diff --quiet; then echo "refusing: $REPO has uncommitted changes"; exit 2; fi
if ! git -C "$REPO" apply $REV "$PATCH"; then echo "patch does not apply: $PATCH"; exit 2; fi
if [ -n "$MUT_ROOT" ]; then
  trap 'git -C "$REPO" checkout -- . ' EXIT INT TERM
else
  trap 'git -C "$REPO" checkout -- . ; (cd "$ROOT/harness" && CARGO_NET_OFFLINE=true cargo build --release --offline >/dev/null 2>&1)' EXIT INT TERM
fi
for ID in "$@"; do
  OUT=$("$ROOT/bin/check" "$ID" quick 2>&1); RC=$?
  echo "== $(basename "$PATCH") $REV $ID exit=$RC"
  echo "$OUT" | grep -E "^(VIOLATION|INCONCLUSIVE|OK|FAILED)" | cut -c1-260 | head -6
done
