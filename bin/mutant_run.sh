#!/bin/sh
# usage: bin/mutant_run.sh [-R] <patch file> <ID> [<ID> ...]
# applies the patch to /repo's working tree (with -R: reverses a fix commit), runs the quick
# checks, and always restores /repo afterwards.  Prints one line per check: exit code + verdict.
REV=""
if [ "$1" = "-R" ]; then REV="-R"; shift; fi
PATCH=$(realpath "$1"); shift
ROOT=$(cd "$(dirname "$0")/.." && pwd)
REPO=${VERIF_REPO:-/repo}
if ! git -C "$REPO" diff --quiet; then echo "refusing: $REPO has uncommitted changes"; exit 2; fi
if ! git -C "$REPO" apply $REV "$PATCH"; then echo "patch does not apply: $PATCH"; exit 2; fi
trap 'git -C "$REPO" checkout -- . ; (cd "$ROOT/harness" && CARGO_NET_OFFLINE=true cargo build --release --offline >/dev/null 2>&1)' EXIT INT TERM
for ID in "$@"; do
  OUT=$("$ROOT/bin/check" "$ID" quick 2>&1); RC=$?
  echo "== $(basename "$PATCH") $REV $ID exit=$RC"
  echo "$OUT" | grep -E "^(VIOLATION|INCONCLUSIVE|OK|FAILED)" | cut -c1-260 | head -6
done
