#!/usr/bin/env python3
"""Regenerates /verif/MANIFEST.json from the table below (kept valid at all times)."""
import json, os, sys

ROOT = os.path.dirname(os.path.dirname(os.path.abspath(__file__)))
props = [json.loads(l) for l in open(os.path.join(ROOT, "properties.jsonl"))]

# id -> (technique, level text, level note, design ref)
CLAIMED = {
    "C01": (
        "property-based testing: proptest-generated networks x search configurations, validity-predicate oracle over a reference graph",
        "Generated search (proptest, fixed seed, integrated shrinking) over networks of 7 shapes, all algorithms, both orientations and directions; every returned route and tree is judged by a walk/rooted-tree validity predicate evaluated on a reference adjacency list built from the case data, not from the loaded Graph. Exploration is the right level: the property quantifies over unbounded inputs and admits many correct outputs, so a validity predicate over generated inputs is the strongest executable statement.",
        "Trusted: the harness reference graph and predicates; proptest's generator. Yen's algorithm is run in a killable helper process; its listed findings are keyed by signature in known_findings.txt.",
        "DESIGN.md section 5 C01",
    ),
    "C02": (
        "property-based testing: differential against a label-correcting reference shortest-path solver + SI reference cost model + A*/Dijkstra differential",
        "Generated networks (free lengths for Dijkstra, metrically consistent by a margin for A*) x unit configurations x non-negative weights/rates/surcharges x orientations/directions; the returned route's cost is compared with a Bellman-Ford optimum over the implementation's own edge costs (1e-9), the route is re-costed under an independent SI-unit cost model against that model's optimum (0.3 %), and A* is compared with Dijkstra. Exploration level: the optimum is recomputed exactly per case, the quantifier over all networks is sampled.",
        "Trusted: the reference Bellman-Ford, the SI unit table and the reference cost formula. Weight-factor sources covered: configuration, default, query override, query factor on configured Dijkstra.",
        "DESIGN.md section 5 C02",
    ),
    "C03": (
        "property-based testing: model-based re-accumulation of every returned route with SI units and an independently computed turn angle; exhaustive side table for heading differences and turn-classifier laws",
        "Every route returned by any algorithm/orientation/direction is re-accumulated edge by edge (distance, time incl. turn delays, per-edge access and traversal cost, monotonicity, initial state) by a reference evaluator that shares no code with the models; cost comparisons use interval evaluation of the rate chain under +-0.25 % unit slack. All 129 600 heading pairs and all 361 angles are enumerated for the wrap-around and classifier laws.",
        "Trusted: reference evaluator and SI table. Turn-class degree boundaries are taken from the implementation's classifier (the statement fixes none); its laws are checked exhaustively. Listed findings: Yen (state restarts at the spur vertex), re-opened vertices keeping stale children.",
        "DESIGN.md section 5 C03",
    ),
    "C04": (
        "property-based testing: independent allowed-edge / restricted-turn predicate over routes and trees produced with the real application-level frontier models",
        "Road-class, vehicle-restriction (through the CSV row parser), turn-restriction, combined and edge-cut frontier models are built in memory from their services or (15 % of the cases) through the application's builders from configuration JSON and generated input files (empty allowed-class set, repeated rows per edge and kind, same-type models split over two files inside combined) and driven by generated queries (numeric and mapped class names, vehicle parameters in other units); every route edge, tree branch and consecutive route pair is judged by an independent predicate using SI unit factors.",
        "Trusted: the reference predicate; restriction values are generated >= 1 % away from the vehicle's value. Listed findings: edge-oriented boundary turns, Yen spur turns.",
        "DESIGN.md section 5 C04",
    ),
    "C05": (
        "property-based testing: reachability oracle (DFS on the reference graph) and least-cost labels (Bellman-Ford) for destination-less trees",
        "Generated disconnected / one-way networks with edge-local restrictions; success iff reachable, NoPath (matched on the enum) otherwise, never an empty success or another error; destination-less trees must have exactly the reachable set as keys with least-cost labels.",
        "Trusted: reference DFS and Bellman-Ford.",
        "DESIGN.md section 5 C05",
    ),
    "C06": (
        "property-based testing: differential between run-alone, batch and permuted batch as order-free multisets + reference model of the configured input pipeline for response counts; enumeration of the (batch size, parallelism) plane",
        "Real applications are built from generated files in 9 plugin/search/traversal configurations (two with the energy model and its shared prediction cache, where run-alone means a freshly built application) and driven with batches mixing valid, failing and grid-search queries under two parallelism values, a permutation, injected per-query delays and both persistence policies; responses are compared as canonical multisets with the run-alone (parallelism 1, one query per call) reference; the load-balancing partition is checked directly for arbitrary weights. All (size 1-24) x (parallelism 1-16) pairs are enumerated with a simple mix.",
        "Trusted: the pipeline reference model, canonicalisation (volatile clock fields removed, floats at 11 digits). The thread schedule is perturbed, not enumerated (see DESIGN.md section 9). Listed finding: a failing grid sibling drops its family.",
        "DESIGN.md section 5 C06",
    ),
    "C07": (
        "property-based testing: direct calls with generated cost configurations against a reference cost formula + metamorphic relations",
        "200k+ generated (weights, vehicle rates incl. nested combined/offset, network rates, aggregation, state pairs incl. zero and negative changes) per quick run; traversal/access costs must be finite and > 0, estimates finite and >= 0, equal to the reference weighted sum or the floor under sum aggregation; metamorphic: linear in weights, zero-weight features and other edges' surcharges are ignored; EdgeTraversal totals through forward/reverse traversal with harness models applying exactly the generated state changes.",
        "Trusted: the reference formula (direct transcription of the statement). Magnitudes bounded so products cannot overflow f64.",
        "DESIGN.md section 5 C07",
    ),
    "C12": (
        "property-based testing / structural fuzzing of query batches: grammar-based JSON generation and mutation of valid queries against 8 real application configurations, with panic capture, watchdog and a JSON-level reference of the input pipeline",
        "Batches of 0-6 values (arbitrary JSON and mutated valid queries: deleted/retyped fields, 24 odd values, degenerate grid sections, odd weights/k/weight factors/model names, identical origin and destination) are run alone and as a batch; oracles: no panic (hook + catch_unwind across rayon workers), no unbounded run (per-case watchdog, re-run in a fresh process before reporting), Ok from run(), response count from the reference pipeline, object responses that echo their request, batch multiset = run-alone multiset.",
        "Trusted: the JSON-level pipeline reference; RLIMIT_AS 24 GiB and a 20 s per-case watchdog (typical case < 5 ms). Listed finding: a failing grid sibling drops its family.",
        "DESIGN.md section 5 C12",
    ),
    "C13": (
        "property-based testing: validity predicates over k-shortest-path results (count, least-cost first route, loop-free walks, accumulation, distinctness, own cosine similarity) + metamorphic accept-all >= threshold; Yen executed in a killable helper process",
        "Networks biased to many alternatives and to degenerate short paths; both algorithms, all similarity functions/thresholds/termination criteria, k from configuration or query, both orientations. Only validity predicates are used because alternatives depend on hash iteration order. Unbounded running is observed by executing Yen in a helper process with a wall budget.",
        "Trusted: reference cosine, Bellman-Ford, walk predicates. Yen's implementation has one root defect with many symptoms, each listed by signature in known_findings.txt; single-via is fully judged.",
        "DESIGN.md section 5 C13",
    ),
    "C14": (
        "property-based testing: exact-reproduction oracle on random multilinear data, differential between interpolator implementations, corner-bound/continuity/clamping oracle against the underlying random forest",
        "Generic interpolators (1D, 2D, 3D, ND) on generated non-uniform axes must reproduce a random multilinear polynomial exactly, agree with each other and with a dummy-axis embedding, and reject outside points; generic interpolators are also run on a non-multilinear table against a bracketing-cell reference; the speed/grade model is rebuilt over the four bundled model files with generated bounds/bins in any declared speed/grade/rate unit, must equal the model load_prediction_model builds from an interpolate section, and is queried in all 9 input-unit combinations at interior, on-line, +-ulp, boundary and outside points.",
        "Trusted: the bundled model files as data; own linspace recurrence for node positions.",
        "DESIGN.md section 5 C14",
    ),
    "C15": (
        "property-based testing: generated CSV/gzip files loaded through the real loaders and compared accessor by accessor with a reference adjacency list built from the same rows",
        "Edge/vertex files (loaded through the application's graph builder from a [graph] section) are generated with reordered and extra columns, with/without trailing newline, gzip or plain per file, explicit or scanned counts and 0-7 digit coordinates; every Graph accessor, both adjacency views (as duplicate-free sets), vertex coordinates, gzip-vs-plain equality and row alignment of speed/heading/class tables are checked.",
        "Trusted: the reference adjacency list. Preconditions from the Graph docs (ids = row index, end points < n_vertices) are respected by the generator; gzip files carry the .gz extension.",
        "DESIGN.md section 5 C15",
    ),
    "C16": (
        "property-based testing: exhaustive-scan oracle under the plugin's own f32 measure, great-circle tolerance band, query-preservation check",
        "Vertex and edge matchers are built through their plugin builders from configuration JSON and generated files (lattice-snapped candidates for exact ties, road-class table, vehicle-restriction file) and queried at, near, between, around, far from and outside the candidates, with tolerances from 1 m to 500 km in all five units.",
        "Trusted: geo's centroid (a library, not code under test), the f64 haversine reference. Ties may be resolved either way; a +-1 % +- 5 m band around the tolerance accepts either outcome.",
        "DESIGN.md section 5 C16",
    ),
    "C17": (
        "exhaustive enumeration of small iterator shapes + property-based testing against a nested-loop reference product",
        "All 340 mixed-radix shapes up to 4 axes x 4 options are enumerated for the iterator; generated query objects with grid sections (scalar/object/mixed choices, any key order, non-array members, overriding axis names) (incl. products of several thousand combinations) are expanded by the plugin directly and through apply_input_plugins (also grid search -> injected second grid -> grid search) and compared as key-order-insensitive multisets with a nested-loop reference.",
        "Trusted: the reference product. Colliding overlay keys are not generated (the statement defines no overlay order).",
        "DESIGN.md section 5 C17",
    ),
    "C08": (
        "model-based property testing: generated edge histories through the real EnergyTraversalModel against a reference energy / state-of-charge / PHEV-mode model",
        "Histories of 1-12 edges (incl. steep downhill), three vehicle types over the bundled models (wrapped in the interpolation model for continuity), battery 0.05-100 kWh, valid and invalid starting charges, all unit configurations of time model / energy service / grade table, real-world adjustment, a service time unit that differs from the time feature's, vehicles built directly or through the application's vehicle builders from configuration JSON, prediction cache (the reference is the model's exact range over the cache key's bucket); per-edge energy, clamped charge update, PHEV mode by charge at entry, additivity, best-case estimate and starting-charge validation are checked.",
        "Trusted: the bundled model files as data; the reference formulas transcribed from the statement. Cache keys on a rounding boundary are not judged.",
        "DESIGN.md section 5 C08",
    ),
    "C09": (
        "property-based testing + exhaustive enumeration of the unit dimension against SI reference factors",
        "All 77 ordered unit pairs and all constructor unit combinations are enumerated; magnitudes are generated (log-uniform, signed). Oracles: identity, linearity, 0.1 % round trip, SI physical factor (own table), definitional formulas for Time/Speed/Energy::create and their rejection guards.",
        "Trusted: the SI/US-customary reference factors written in the harness. Energy units are compared by round trip and linearity only, as the property states.",
        "DESIGN.md section 5 C09",
    ),
    "C10": (
        "property-based testing with exhaustive limit sweeps: observed expansion counts (counting frontier model), reference replay of tree sizes, injected sleeps for runtime budgets",
        "For every generated search the iteration / solution-size / combined limit is swept from 0 to beyond what the unlimited search needs (built through the configuration builder); each limited run must be identical to the unlimited result or an explicit terminated error naming the limit, success is monotone, observed expansions never exceed the iteration limit, and the size limit fires at the first check after the replayed tree size exceeds it; runtime budgets are tested with a traversal model that sleeps 3x the budget at a generated call, and as configuration text (H:MM:SS + frequency) that must build a model with exactly that budget; Yen is judged as limited-versus-unlimited relation.",
        "Trusted: counting frontier wrapper (lower bound for expansions), the reference relaxation replay. Wall-clock only enters through a 60 ms budget vs a 180 ms injected sleep and a 10^4 margin on the other side.",
        "DESIGN.md section 5 C10",
    ),
    "C11": (
        "model-based property testing: generated operation histories against an insertion-ordered Vec model",
        "Histories of construction / insert / overwrite / clone operations on the ordered map are generated and the entire public API is compared with a Vec model after every step, at sizes passing every small-size specialisation; StateModel is built through five construction paths with 0-10 features of seven kinds and exercised by set/add/get sequences by name with a slot-level model.",
        "Trusted: the Vec reference model and SI unit factors. CompactOrderedHashMap::new is only given distinct keys (documented precondition).",
        "DESIGN.md section 5 C11",
    ),
    "C18": (
        "exhaustive enumeration of all small digraphs + property-based testing against an independent Tarjan / mutual-reachability reference",
        "Every directed graph with self loops on 1-4 vertices is enumerated (thorough: plus all loop-free digraphs on 5 vertices); random multigraphs, rings of rings and long chains are generated. The returned components must be a partition into exactly the mutual-reachability classes; the largest component must have maximal size.",
        "Trusted: the harness's iterative Tarjan, itself cross-checked by n BFS runs for n <= 64.",
        "DESIGN.md section 5 C18",
    ),
    "C19": (
        "property-based testing: file contents after run() parsed by own JSON-lines / CSV readers and compared as multisets with the responses produced without a sink; information-preservation differential",
        "Batches of 1-60 queries (successes, search errors, input-plugin errors, grid siblings) with records padded up to 200 KiB, parallelism 1-16, both persistence policies, four flush rates, JSON lines or CSV mappings (paths, sums, optionals, failing paths, sorted or not) and 1-3 appending runs; record counts, parseability, multiset equality, single header, row width, cell values by an independent mapping evaluator, and no loss of information in the responses handed back.",
        "Trusted: own CSV cell splitter and mapping evaluator. The interleaving space is sampled, not enumerated.",
        "DESIGN.md section 5 C19",
    ),
    "C20": (
        "property-based testing: one search result rendered in all five formats, decoded by own WKT/WKB/GeoJSON readers and compared with the edge sequence and a provenance-encoding geometry table",
        "The traversal plugin is built from a generated geometry file (2-6 points per edge, coordinates encoding edge id and point index or sharing junction points and repeating a point, optionally truncated; identifier table with empty rows) for each route and tree format and run on the same search result (several routes for single-via); edge ids, per-edge records, feature ids/properties/geometries, concatenated WKT/WKB geometry, one tree entry per branch, missing geometry => error, identifiers and summary counts are checked.",
        "Trusted: own minimal WKT and little-endian WKB readers. Coordinates are compared exactly.",
        "DESIGN.md section 5 C20",
    ),
}

NOT_YET = "check not built yet (work in progress; see DESIGN.md section 5)"

# what the fourth round of seeded changes added to each check (appended to the level text)
ROUND4 = {
    "C01": " One case in 250 comes from networks of 400-800 vertices (thorough 1500; unbroken chains, lattices): routes of hundreds of edges, trees of hundreds of entries.",
    "C02": " In half of the direct cases the same search instance first answers a search to another destination; a share of the cases uses networks of up to 400 vertices (thorough 1500).",
    "C12": " The odd values include texts of 3000 bytes in 2- and 4-byte characters at both alignments, a 30-deep array and a 200-key object; the load balancer also takes weights named by category.",
    "C03": " In the application variant an earlier query on the same application declares the same feature names in other units and/or with other initial values; a share of the direct cases accumulates over routes of hundreds of edges (chains and lattices of up to 800 vertices, thorough 1500).",
    "C05": " A quarter of the restricted cases express the restriction through the vehicle-restriction model (height limits in three units), with a low vehicle answered first by the same service; one network in 250 has 400-800 vertices (thorough 1500-3000).",
    "C06": " The load balancer also takes weights named by category (with and without a default); the combustion energy applications carry a second vehicle with a prediction cache of its own, driven by every third query.",
    "C07": " Feature names are chosen so that their alphabetical order differs from their order in the state vector.",
    "C11": " Maps and state models with hundreds to tens of thousands of entries (127...257, 300, 1000 and 70 000 enumerated for all three construction paths; 13-3000 generated).",
    "C15": " Two enumerated networks of 4 000 and 9 000 vertices (thorough: 30 000 and 70 000) as gzip files with scanned counts; one case in six is also questioned through the application's graph accessors (language bindings), where a unit text must be refused or answered in the unit it names.",
    "C16": " Every other vehicle query is preceded on the same plugin by its twin without a vehicle description.",
    "C17": " Object-valued choices may bring a nested section under a name the query already uses for an object (replaced as a whole).",
    "C18": " A third of the generated graphs are loaded from edge and vertex files through the application's graph builder instead of being assembled in memory.",
    "C19": " The sink is the application's policy, a policy handed over in the run configuration (JSON form), or a combined policy with a second newline-delimited JSON file that is judged as well; under the discard policy no search response may come back.",
}

checks = []
for p in props:
    pid = p["id"]
    if pid not in CLAIMED:
        continue
    tech, text, note, ref = CLAIMED[pid]
    text = text + ROUND4.get(pid, "")
    checks.append(
        {
            "property_id": pid,
            "quick_cmd": f"bin/check {pid} quick",
            "thorough_cmd": f"bin/check {pid} thorough",
            "evidence_file": f"/verif/evidence/{pid}.json",
            "replay_cmd_template": f"harness/target/release/rcv {pid} --replay {{path}}",
            "engine": "rcv",
            "level_claimed": {"category": "exploration", "text": text, "design_ref": ref},
            "level_note": note,
            "technique": tech + "; the thorough tier adds coverage-guided fuzzing (libFuzzer drives the same proptest strategy through its decision tape, same oracle)",
        }
    )

manifest = {
    "version": 1,
    "setup_cmd": "cd /verif/harness && CARGO_NET_OFFLINE=true cargo build --release --offline",
    "hooks": {
        "guard": "routee_compass_verif",
        "enable": "no hooks are needed: every module of the three library crates is pub and the search is parameterised by trait objects, so the harness injects its own models from outside; the cfg name --cfg routee_compass_verif is reserved and unused",
        "baseline_off_cmd": "cd /repo/rust && cargo test --workspace --no-fail-fast --offline",
        "source_commits": [],
        "add_only": True,
    },
    "engines": [
        {
            "name": "rcv",
            "path": "/verif/harness",
            "serves_properties": sorted(CLAIMED.keys()),
            "kind_free_text": "Rust crate: proptest 1.11 TestRunner driven from a binary (fixed seeds from VERIF_SEED, 16 parallel runners, integrated shrinking, JSON replay files), exhaustive enumerators for finite sub-domains, explicit reference oracles; path-depends on /repo/rust so every run rebuilds against the working tree",
        },
        {
            "name": "rcv-fuzz",
            "path": "/verif/harness/fuzz",
            "serves_properties": sorted(CLAIMED.keys()),
            "kind_free_text": "cargo-fuzz 0.13 / libFuzzer crate with one generic target (RCV_FUZZ_PROP selects the property): the input bytes are the decision tape of proptest's PassThrough generator (vendored copy with a small patch, see DESIGN.md 3.1), the decoded case is judged by the same Prop::check; second stage of every thorough tier, driven by bin/fuzz",
        }
    ],
    "checks": checks,
    "notes": "bin/check <ID> <tier> rebuilds the harness against /repo's working tree and runs rcv; the thorough tier then runs bin/fuzz <ID> (cargo +nightly fuzz build of harness/fuzz, 16 libFuzzer processes, fixed -runs) and folds its statistics into the evidence under coverage.fuzz. Known findings and fixed defects are listed in /verif/known_findings.txt; sensitivity runs (reverse fix patches and mutants) are driven by bin/mutant_run.sh.",
    "not_applicable": [
        {"property_id": p["id"], "reason": NOT_YET} for p in props if p["id"] not in CLAIMED
    ],
}
json.dump(manifest, open(os.path.join(ROOT, "MANIFEST.json"), "w"), indent=1)
print("claimed", len(checks), "not yet", len(manifest["not_applicable"]))
