#!/usr/bin/env python3
"""Confirms and stores seeded changes written by sub-agents.

usage: bin/keep_seeded.py <src dir with k/{patch.diff,demo.rs,README.md}> <property id> <demo crate> <check id>[,<check id>...]

For every k: confirm in a scratch worktree (bin/confirm_seeded.sh: applies, suite passes, demo fails
with / passes without), run the named quick checks against it (bin/mutant_run.sh), and store
patch.diff, the demonstration and meta.json under /verif/seeded/<property>-<k>/.
Only changes whose confirmation succeeded are kept.
"""
import json, os, re, shutil, subprocess, sys

ROOT = os.path.dirname(os.path.dirname(os.path.abspath(__file__)))
src, prop, crate, checks = sys.argv[1], sys.argv[2], sys.argv[3], sys.argv[4].split(",")
crates = crate.split(",")

for k in sorted(os.listdir(src)):
    d = os.path.join(src, k)
    if not os.path.isfile(os.path.join(d, "patch.diff")):
        continue
    kcrate = crates[int(k) - 1] if len(crates) > 1 and k.isdigit() and int(k) <= len(crates) else crates[0]
    if os.path.isfile(os.path.join(d, "crate.txt")):  # round 4: the sub-agent names the demo's crate
        kcrate = open(os.path.join(d, "crate.txt")).read().strip() or kcrate
    conf = subprocess.run([os.path.join(ROOT, "bin/confirm_seeded.sh"), d, kcrate], capture_output=True, text=True).stdout
    steps = dict(re.findall(r"STEP ([a-z\-]+): (.*)", conf))
    ok = (
        steps.get("apply", "").startswith("ok")
        and steps.get("suite-with-patch", "").startswith("pass")
        and steps.get("demo-with-patch", "").startswith("fails")
        and steps.get("demo-without-patch", "").startswith("passes")
    )
    print(f"{prop}-{k}: confirmation {'ok' if ok else 'FAILED'} {steps}")
    if not ok:
        continue
    results = []
    for c in checks:
        out = subprocess.run([os.path.join(ROOT, "bin/mutant_run.sh"), os.path.join(d, "patch.diff"), c], capture_output=True, text=True).stdout
        m = re.search(r"exit=(\d+)", out)
        sigs = sorted(set(re.findall(r"signature=(\S+)", out)))
        results.append({"check": c, "tier": "quick", "exit": int(m.group(1)) if m else None, "signatures": sigs[:8]})
        print(f"   {c}: exit={results[-1]['exit']} {sigs[:3]}")
    tag = os.environ.get("SEEDED_TAG", "")  # e.g. "r2-" for the second round
    dst = os.path.join(ROOT, "seeded", f"{prop}-{tag}{k}")
    os.makedirs(dst, exist_ok=True)
    shutil.copy(os.path.join(d, "patch.diff"), os.path.join(dst, "patch.diff"))
    for f in os.listdir(d):
        if f.endswith(".rs") or f == "README.md":
            shutil.copy(os.path.join(d, f), os.path.join(dst, f))
    readme = open(os.path.join(d, "README.md")).read() if os.path.exists(os.path.join(d, "README.md")) else ""
    needs = ""
    m = re.search(r"(?is)(needs?|condition|manifest)[^\n]*\n(.{0,900})", readme)
    if m:
        needs = m.group(0)[:900]
    meta = {
        "id": f"{prop}-{os.environ.get('SEEDED_TAG', '')}{k}",
        "breaks_property": prop,
        "source": "independent sub-agent that was given only the property text and a scratch worktree (nothing from /verif)",
        "what_it_needs_to_manifest": needs.strip() or "see README.md",
        "demonstration": {"file": "demo.rs", "crate": kcrate, "how": f"copy to rust/{kcrate}/tests/ and run cargo test -p {kcrate} --offline --test <name>"},
        "confirmed_by_me": {
            "how": "bin/confirm_seeded.sh in a scratch worktree of /repo HEAD outside /repo and /verif",
            "applies_and_compiles": steps.get("apply"),
            "existing_suite_with_change": steps.get("suite-with-patch"),
            "demonstration_with_change": steps.get("demo-with-patch"),
            "demonstration_without_change": steps.get("demo-without-patch"),
        },
        "checks_run": results,
        "detected": any(r["exit"] == 1 for r in results),
    }
    json.dump(meta, open(os.path.join(dst, "meta.json"), "w"), indent=1)
