#!/bin/sh
# background sweep used during development (vp run): thorough tier of the listed checks
# usage: bin/thorough_sweep.sh ID...   (run from a snapshot: links ../repo to /repo first)
[ -e ../repo ] || ln -sfn "${VP_RUN_REPO:-/repo}" ../repo
for ID in "$@"; do
  echo "=== $ID"; bin/check "$ID" thorough 2>&1 | grep -E "^(VIOLATION|OK|FAILED|INCONCLUSIVE|  detail|SUSPECT|FUZZ|NOTE)" | cut -c1-600
done
