#!/bin/sh
# runs every hand-written mutant of mutants/hand against the check named by its file prefix
ROOT=$(cd "$(dirname "$0")/.." && pwd)
OUT="$ROOT/mutants/hand/RESULTS.txt"
for P in "$ROOT"/mutants/hand/${1:-C}*.patch; do
  ID=$(basename "$P" | cut -c1-3)
  "$ROOT/bin/mutant_run.sh" "$P" "$ID" 2>&1 | grep -E "^(==|VIOLATION|INCONCLUSIVE|OK |FAILED|patch does not|refusing)" | cut -c1-220 | tee -a "$OUT"
done
