#!/usr/bin/env python3
"""Re-runs the registered quick checks against every stored seeded change (seeded/<id>/patch.diff)
in a scratch root (MUT_ROOT, default /tmp/mr: a worktree of /repo HEAD plus a copy of /verif) and
records the result in meta.json next to the result of the first run (`checks_run_first`), so the
file shows which changes were missed at first and are caught after a check was strengthened.

usage: bin/seeded_recheck.py [id-prefix | ~substring ...]
"""
import json, os, re, subprocess, sys

ROOT = os.path.dirname(os.path.dirname(os.path.abspath(__file__)))
os.environ.setdefault("MUT_ROOT", "/tmp/mr")
only = sys.argv[1:]
rows = []
for name in sorted(os.listdir(os.path.join(ROOT, "seeded"))):
    d = os.path.join(ROOT, "seeded", name)
    mp = os.path.join(d, "meta.json")
    if not os.path.isfile(mp):
        continue
    # a filter is a name prefix, or ~text for 'contains text' (e.g. ~-r3-)
    if only and not any((p.startswith('~') and p[1:] in name) or name.startswith(p) for p in only):
        continue
    meta = json.load(open(mp))
    checks = [c["check"] for c in meta.get("checks_run_first", meta["checks_run"])]
    if "checks_run_first" not in meta:
        meta["checks_run_first"] = meta["checks_run"]
        meta["detected_first"] = meta["detected"]
    results = []
    for c in checks:
        out = subprocess.run([os.path.join(ROOT, "bin/mutant_run.sh"), os.path.join(d, "patch.diff"), c], capture_output=True, text=True).stdout
        m = re.search(r"exit=(\d+)", out)
        sigs = sorted(set(re.findall(r"signature=(\S+)", out)))
        results.append({"check": c, "tier": "quick", "exit": int(m.group(1)) if m else None, "signatures": sigs[:8], "note": None if m else out.strip()[-200:]})
    meta["checks_run"] = results
    meta["detected"] = any(r["exit"] == 1 for r in results)
    json.dump(meta, open(mp, "w"), indent=1)
    rows.append((name, meta["detected_first"], meta["detected"], [r["exit"] for r in results]))
    print(name, "first:", meta["detected_first"], "now:", meta["detected"], [r["exit"] for r in results], flush=True)
print("SUMMARY detected now: %d / %d; first run: %d" % (sum(1 for r in rows if r[2]), len(rows), sum(1 for r in rows if r[1])))
