#!/usr/bin/env python3
"""Prints the markdown table of DESIGN.md section 8 from seeded/*/meta.json and patch.diff."""
import json, os, re
ROOT = os.path.dirname(os.path.dirname(os.path.abspath(__file__)))
print("| seeded change | file(s) changed | first run | now | signatures reported (quick tier) |")
print("|---|---|---|---|---|")
for n in sorted(os.listdir(os.path.join(ROOT, "seeded"))):
    d = os.path.join(ROOT, "seeded", n)
    if not os.path.isfile(os.path.join(d, "meta.json")):
        continue
    m = json.load(open(os.path.join(d, "meta.json")))
    files = sorted(set(re.findall(r"^\+\+\+ b/rust/(\S+)", open(os.path.join(d, "patch.diff")).read(), re.M)))
    files = [f.split("/src/")[-1] if "/src/" in f else f for f in files]
    first = m.get("checks_run_first", m["checks_run"])
    def verdict(rs):
        return ", ".join("%s %s" % (r["check"], {0: "missed", 1: "VIOLATION", 2: "inconclusive (build race)"}.get(r["exit"], str(r["exit"]))) for r in rs)
    sigs = []
    for r in m["checks_run"]:
        sigs += r["signatures"][:2]
    print("| %s | %s | %s | %s | %s |" % (n, "<br>".join("`%s`" % f for f in files), verdict(first), verdict(m["checks_run"]), "<br>".join("`%s`" % s for s in sigs[:3])))
