#!/bin/sh
# usage: bin/seeded_run.sh <dir containing k/patch.diff> <ID> [more IDs]   -> runs each k against the checks
D="$1"; shift
for K in "$D"/*/; do
  [ -f "$K/patch.diff" ] || continue
  /verif/bin/mutant_run.sh "$K/patch.diff" "$@" 2>&1 | grep -E "^(==|VIOLATION|INCONCLUSIVE|OK |patch does not|refusing)" | sed "s|== patch.diff|== $(basename $(dirname $K))/$(basename $K)|" | cut -c1-230
done
