#!/bin/sh
# usage: bin/confirm_seeded.sh <dir with patch.diff, demo*.rs, README.md> <crate for the demo: routee-compass-core|routee-compass|routee-compass-powertrain>
# Confirms in a scratch worktree (outside /repo and /verif) that the seeded change
#  (1) applies and compiles, (2) passes the existing test suite, (3) makes the demo fail,
#  and that (4) the demo passes without the change.  Prints one line per step.
D=$(realpath "$1"); CRATE="${2:-routee-compass-core}"
WT=${CONFIRM_WT:-/tmp/wt/confirm}
if [ ! -d "$WT" ]; then git -C /repo worktree add -f --detach "$WT" HEAD >/dev/null 2>&1 || exit 2; fi
git -C "$WT" checkout -q --detach "$(git -C /repo rev-parse HEAD)" 2>/dev/null
git -C "$WT" checkout -- . ; git -C "$WT" clean -fdq -e rust/target
DEMO=$(ls "$D"/*.rs | head -1)
cd "$WT/rust" || exit 2
if ! git -C "$WT" apply "$D/patch.diff"; then echo "STEP apply: FAILED"; exit 1; fi
echo "STEP apply: ok"
if cargo test --workspace --offline --no-fail-fast >"$D/confirm_suite.log" 2>&1; then echo "STEP suite-with-patch: pass ($(grep -c '^test .* ok$' "$D/confirm_suite.log") tests ok)"; else echo "STEP suite-with-patch: FAILED"; grep -E "^test .*FAILED|panicked" "$D/confirm_suite.log" | head -5; fi
mkdir -p "$WT/rust/$CRATE/tests"; cp "$DEMO" "$WT/rust/$CRATE/tests/seeded_demo.rs"
if cargo test -p "$CRATE" --offline --test seeded_demo >"$D/confirm_demo_with.log" 2>&1; then echo "STEP demo-with-patch: PASSES (expected failure!)"; else echo "STEP demo-with-patch: fails (as expected)"; fi
git -C "$WT" apply -R "$D/patch.diff"
if cargo test -p "$CRATE" --offline --test seeded_demo >"$D/confirm_demo_without.log" 2>&1; then echo "STEP demo-without-patch: passes (as expected)"; else echo "STEP demo-without-patch: FAILS (expected pass!)"; tail -5 "$D/confirm_demo_without.log"; fi
rm -f "$WT/rust/$CRATE/tests/seeded_demo.rs"
git -C "$WT" checkout -- . ; git -C "$WT" clean -fdq -e rust/target
